// N1: bounded stand-in for the Kani contract of `packet()` (src/packet.rs), which CBMC cannot
// decide within the memory of this sandbox once sequence ids are symbolic (DESIGN.md, K1).
// The REAL function is run natively on REAL-size fragments (0xFFFFFF payload bytes each) over a
// stated finite set of inputs and compared with the specification `unframe` + `consecutive`
// (DESIGN.md section 4) written out below. Labelled BOUNDED, never counted as proved.
//
//@ group n1_packet
//@ inject src/packet.rs
//@ default-clause C20.packet.nopanic
//@ check n1_packet_enum kind=bounded bound=0..=3-full-fragments,final-length-in-{0,1,2,300},8-sequence-id-patterns,every-truncation-point-near-a-boundary fn=src/packet.rs::packet
//@ clause C01.packet       packet(i) == unframe(i): payload = concatenation of the fragments' payloads byte for byte, consumed length exact, Err(Error|Incomplete) iff incomplete
//@ clause C05.packet.lastseq the returned sequence id is that of the LAST fragment
//@ clause C20.packet.order the returned flag is true exactly when the fragments carried consecutive ids modulo 256; never a panic, never Failure
#![allow(dead_code)]
use crate::packet::packet;

const MAXP: usize = 16_777_215;

/// spec: (consumed, last seq, payload, ids consecutive)
fn unframe(s: &[u8]) -> Option<(usize, u8, Vec<u8>, bool)> {
    let mut pos = 0usize;
    let mut payload = Vec::new();
    let mut prev: Option<u8> = None;
    let mut in_order = true;
    loop {
        if s.len() < pos + 4 {
            return None;
        }
        let l = s[pos] as usize | (s[pos + 1] as usize) << 8 | (s[pos + 2] as usize) << 16;
        let seq = s[pos + 3];
        if s.len() < pos + 4 + l {
            return None;
        }
        if let Some(p) = prev {
            if seq != p.wrapping_add(1) {
                in_order = false;
            }
        }
        prev = Some(seq);
        payload.extend_from_slice(&s[pos + 4..pos + 4 + l]);
        pos += 4 + l;
        if l < MAXP {
            return Some((pos, seq, payload, in_order));
        }
    }
}

fn build(nfull: usize, last_len: usize, ids: &[u8]) -> Vec<u8> {
    let mut v = Vec::with_capacity(nfull * (MAXP + 4) + 4 + last_len);
    for f in 0..nfull {
        v.extend_from_slice(&[0xff, 0xff, 0xff, ids[f]]);
        let base = v.len();
        v.resize(base + MAXP, 0);
        // a position-dependent pattern so that misplaced or duplicated bytes are noticed
        let mut k = 0;
        while k < MAXP {
            v[base + k] = ((k * 31 + f * 7) % 251) as u8;
            k += 4099;
        }
        v[base] = 0xA0 + f as u8;
        v[base + MAXP - 1] = 0xB0 + f as u8;
    }
    v.extend_from_slice(&[(last_len & 0xff) as u8, (last_len >> 8) as u8, 0, ids[nfull]]);
    for k in 0..last_len {
        v.push((k % 7) as u8 + 1);
    }
    v
}

#[test]
fn n1_packet_enum() {
    let patterns: [[u8; 4]; 8] = [
        [0, 1, 2, 3], [7, 8, 9, 10], [253, 254, 255, 0], [255, 0, 1, 2],
        [5, 5, 6, 7], [5, 7, 8, 9], [5, 6, 6, 7], [5, 6, 7, 9],
    ];
    let mut cases = 0usize;
    let mut nontrivial = 0usize;
    for nfull in 0..=3usize {
        for &last_len in &[0usize, 1, 2, 300] {
            for ids in patterns.iter() {
                let full = build(nfull, last_len, ids);
                // the complete message, the message followed by extra bytes, and truncations around every boundary
                let mut cuts: Vec<usize> = vec![full.len()];
                for f in 0..=nfull {
                    let b = f * (MAXP + 4);
                    for d in [0usize, 1, 3, 4, 5] {
                        if b + d <= full.len() {
                            cuts.push(b + d);
                        }
                    }
                }
                if full.len() >= 1 {
                    cuts.push(full.len() - 1);
                }
                cuts.sort();
                cuts.dedup();
                for &cut in &cuts {
                    let input = &full[..cut];
                    let want = unframe(input);
                    let got = packet(input);
                    cases += 1;
                    match (want, got) {
                        (Some((consumed, seq, payload, in_order)), Ok((rest, (gseq, gp, gflag)))) => {
                            nontrivial += 1;
                            assert!(rest.len() == input.len() - consumed, "[C01.packet] consumed length differs (nfull={} last={} ids={:?} cut={})", nfull, last_len, ids, cut);
                            assert!(gseq == seq, "[C05.packet.lastseq] returned id {} is not the last fragment's {} (nfull={} ids={:?})", gseq, seq, nfull, ids);
                            assert!(&gp[..] == &payload[..], "[C01.packet] reassembled payload differs (nfull={} last={} ids={:?})", nfull, last_len, ids);
                            assert!(gflag == in_order, "[C20.packet.order] in-order flag {} but ids consecutive = {} (nfull={} ids={:?})", gflag, in_order, nfull, ids);
                        }
                        (None, Err(nom::Err::Error(_))) | (None, Err(nom::Err::Incomplete(_))) => {}
                        (None, Err(nom::Err::Failure(_))) => panic!("[C20.packet.order] incomplete input rejected with Failure (nfull={} cut={})", nfull, cut),
                        (None, Ok(_)) => panic!("[C01.packet] incomplete message accepted (nfull={} last={} cut={})", nfull, last_len, cut),
                        (Some(_), Err(_)) => panic!("[C01.packet] complete message rejected (nfull={} last={} ids={:?} cut={})", nfull, last_len, ids, cut),
                    }
                }
                // trailing bytes of the next packet must be left alone
                let mut more = full.clone();
                more.extend_from_slice(&[1, 0, 0, 0, 0x0e]);
                let want = unframe(&more).unwrap();
                match packet(&more) {
                    Ok((rest, (_, gp, _))) => {
                        cases += 1;
                        nontrivial += 1;
                        assert!(rest == &[1, 0, 0, 0, 0x0e][..], "[C01.packet] bytes of the following packet consumed (nfull={} last={})", nfull, last_len);
                        assert!(gp.len() == want.2.len(), "[C01.packet] payload length differs with trailing bytes");
                    }
                    Err(_) => panic!("[C01.packet] complete message followed by another packet rejected"),
                }
            }
        }
    }
    println!("VERIF-NATIVE n1_packet_enum cases={} nontrivial={}", cases, nontrivial);
}
