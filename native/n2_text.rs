// N2: bounded stand-in for the text encoders that go through std formatting and are therefore
// outside both verifiers (rule R10 not implemented; std Display is neither executable by CBMC nor
// readable by Verus): the macro-generated `to_mysql_text` of the integer and float types
// (`format!("{}", self)`) and the text dispatch of `mysql_common::Value`.
// The REAL encoders are run natively over a stated finite set of values and the bytes are decoded
// with a decoder written from the protocol documentation. Labelled BOUNDED, never counted as proved.
//
//@ group n2_text
//@ inject src/value/encode.rs
//@ default-clause C06.text.nopanic
//@ check n2_text_ints   kind=bounded bound=per-integer-type:all-boundaries,powers-of-2-and-10-plus-minus-1,4000-pseudo-random-values fn=src/value/encode.rs::<u8..i64,usize,isize>::to_mysql_text
//@ check n2_text_floats kind=bounded bound=f32-and-f64:special-finite-values,powers-of-ten,20000-pseudo-random-finite-bit-patterns fn=src/value/encode.rs::<f32,f64>::to_mysql_text
//@ check n2_text_value  kind=bounded bound=mysql_common::Value:same-sample-sets-through-the-generic-dispatch,dates-and-times-on-a-grid fn=src/value/encode.rs::<myc::value::Value>::to_mysql_text
//@ clause C06.text.int    an integer cell is one length-encoded string holding the canonical decimal numeral of exactly that value
//@ clause C06.text.float  a finite float cell is one length-encoded string that parses back to exactly the same value
//@ clause C06.text.value  mysql_common::Value cells encode exactly like the corresponding primitive / chrono value
//@ clause C06.text.nopanic the text encoders do not panic on these values
#![allow(dead_code)]
use crate::myc;
use crate::value::ToMysqlValue;

/// one length-encoded string that spans the whole buffer -> its bytes
fn one_lenenc(b: &[u8]) -> Option<&[u8]> {
    let (len, hdr) = match *b.first()? {
        x @ 0..=250 => (x as usize, 1),
        0xfc => (b.get(1).copied()? as usize | (b.get(2).copied()? as usize) << 8, 3),
        0xfd => (b.get(1).copied()? as usize | (b.get(2).copied()? as usize) << 8 | (b.get(3).copied()? as usize) << 16, 4),
        _ => return None,
    };
    if b.len() == hdr + len {
        Some(&b[hdr..])
    } else {
        None
    }
}

fn canonical_decimal(s: &str) -> bool {
    let digits = s.strip_prefix('-').unwrap_or(s);
    let neg = s.starts_with('-');
    !digits.is_empty()
        && digits.bytes().all(|c| c.is_ascii_digit())
        && (digits == "0" || !digits.starts_with('0'))
        && !(neg && digits == "0")
}

struct Lcg(u64);
impl Lcg {
    fn next(&mut self) -> u64 {
        self.0 = self.0.wrapping_mul(6364136223846793005).wrapping_add(1442695040888963407);
        let x = self.0;
        (x ^ (x >> 29)).rotate_left(17)
    }
}

fn int_samples() -> Vec<i128> {
    let mut v: Vec<i128> = vec![0];
    for k in 0..=64u32 {
        let p = 1i128 << k;
        for d in [-1i128, 0, 1] {
            v.push(p + d);
            v.push(-(p + d));
        }
    }
    let mut p = 1i128;
    for _ in 0..=20 {
        for d in [-1i128, 0, 1] {
            v.push(p + d);
            v.push(-(p + d));
        }
        p *= 10;
    }
    let mut g = Lcg(0x5eed_c06);
    for i in 0..4000 {
        let x = g.next();
        // spread over all magnitudes
        let sh = (i % 64) as u32;
        v.push((x >> sh) as i128);
        v.push(-((x >> sh) as i128));
        v.push((x >> sh) as i64 as i128);
    }
    v
}

macro_rules! check_int {
    ($t:ty, $cases:ident, $nontrivial:ident) => {
        for &x in int_samples().iter() {
            if x < <$t>::MIN as i128 || x > <$t>::MAX as i128 {
                continue;
            }
            let v = x as $t;
            let mut out = Vec::new();
            v.to_mysql_text(&mut out).expect("[C06.text.nopanic] integer text encoder failed on an in-memory sink");
            $cases += 1;
            let s = one_lenenc(&out).unwrap_or_else(|| panic!("[C06.text.int] {} {}: not exactly one length-encoded string: {:?}", stringify!($t), v, out));
            let s = std::str::from_utf8(s).unwrap_or_else(|_| panic!("[C06.text.int] {} {}: not ASCII", stringify!($t), v));
            assert!(canonical_decimal(s), "[C06.text.int] {} {}: {:?} is not a canonical decimal numeral", stringify!($t), v, s);
            assert!(s.parse::<$t>().ok() == Some(v), "[C06.text.int] {} {} arrives as {:?}", stringify!($t), v, s);
            if s.len() > 1 {
                $nontrivial += 1;
            }
        }
    };
}

#[test]
fn n2_text_ints() {
    let mut cases = 0usize;
    let mut nontrivial = 0usize;
    check_int!(u8, cases, nontrivial);
    check_int!(i8, cases, nontrivial);
    check_int!(u16, cases, nontrivial);
    check_int!(i16, cases, nontrivial);
    check_int!(u32, cases, nontrivial);
    check_int!(i32, cases, nontrivial);
    check_int!(u64, cases, nontrivial);
    check_int!(i64, cases, nontrivial);
    check_int!(usize, cases, nontrivial);
    check_int!(isize, cases, nontrivial);
    println!("VERIF-NATIVE n2_text_ints cases={} nontrivial={}", cases, nontrivial);
}

fn f64_samples() -> Vec<f64> {
    let mut v = vec![0.0, -0.0, 1.0, -1.0, 0.1, 0.5, 1.5, 1e-7, 123456.789, f64::MIN_POSITIVE, f64::MAX, f64::MIN, f64::EPSILON, 5e-324, 1e15, 1e16, 1e17, 1e21, 1e22, 9007199254740993.0];
    let mut p = 1e-300;
    while p < 1e300 {
        v.push(p);
        v.push(-p * 3.0);
        p *= 1e7;
    }
    let mut g = Lcg(0xf10a7);
    for _ in 0..10000 {
        let f = f64::from_bits(g.next());
        if f.is_finite() {
            v.push(f);
        }
    }
    v
}

fn f32_samples() -> Vec<f32> {
    let mut v = vec![0.0f32, -0.0, 1.0, -1.0, 0.1, 0.5, 1.5, 1e-7, 123456.79, f32::MIN_POSITIVE, f32::MAX, f32::MIN, f32::EPSILON, 1e-45, 16777217.0, 1e10, 1e20, 3.4e38];
    let mut g = Lcg(0xf32);
    for _ in 0..10000 {
        let f = f32::from_bits(g.next() as u32);
        if f.is_finite() {
            v.push(f);
        }
    }
    v
}

#[test]
fn n2_text_floats() {
    let mut cases = 0usize;
    let mut nontrivial = 0usize;
    for f in f64_samples() {
        let mut out = Vec::new();
        f.to_mysql_text(&mut out).expect("[C06.text.nopanic] f64 text encoder failed on an in-memory sink");
        cases += 1;
        let s = one_lenenc(&out).unwrap_or_else(|| panic!("[C06.text.float] f64 {:e}: not exactly one length-encoded string", f));
        let s = std::str::from_utf8(s).unwrap_or_else(|_| panic!("[C06.text.float] f64 {:e}: not ASCII", f));
        let back: f64 = s.parse().unwrap_or_else(|_| panic!("[C06.text.float] f64 {:e}: {:?} is not a number", f, s));
        assert!(back == f && back.is_sign_negative() == f.is_sign_negative(), "[C06.text.float] f64 {:e} arrives as {:?}", f, s);
        if f.fract() != 0.0 {
            nontrivial += 1;
        }
    }
    for f in f32_samples() {
        let mut out = Vec::new();
        f.to_mysql_text(&mut out).expect("[C06.text.nopanic] f32 text encoder failed on an in-memory sink");
        cases += 1;
        let s = one_lenenc(&out).unwrap_or_else(|| panic!("[C06.text.float] f32 {:e}: not exactly one length-encoded string", f));
        let s = std::str::from_utf8(s).unwrap_or_else(|_| panic!("[C06.text.float] f32 {:e}: not ASCII", f));
        let back: f32 = s.parse().unwrap_or_else(|_| panic!("[C06.text.float] f32 {:e}: {:?} is not a number", f, s));
        assert!(back == f && back.is_sign_negative() == f.is_sign_negative(), "[C06.text.float] f32 {:e} arrives as {:?}", f, s);
        if f.fract() != 0.0 {
            nontrivial += 1;
        }
    }
    println!("VERIF-NATIVE n2_text_floats cases={} nontrivial={}", cases, nontrivial);
}

fn same<A: ToMysqlValue, B: ToMysqlValue>(a: &A, b: &B, what: &str) {
    let mut x = Vec::new();
    let mut y = Vec::new();
    let ra = a.to_mysql_text(&mut x).is_ok();
    let rb = b.to_mysql_text(&mut y).is_ok();
    assert!(ra == rb && x == y, "[C06.text.value] generic value and primitive encode differently: {}", what);
}

#[test]
fn n2_text_value() {
    use myc::value::Value as V;
    let mut cases = 0usize;
    let mut nontrivial = 0usize;
    for &x in int_samples().iter() {
        if x >= i64::MIN as i128 && x <= i64::MAX as i128 {
            same(&V::Int(x as i64), &(x as i64), &format!("Int({})", x));
            cases += 1;
            nontrivial += (x != 0) as usize;
        }
        if x >= 0 && x <= u64::MAX as i128 {
            same(&V::UInt(x as u64), &(x as u64), &format!("UInt({})", x));
            cases += 1;
        }
    }
    for f in f64_samples().into_iter().take(3000) {
        same(&V::Double(f), &f, &format!("Double({:e})", f));
        cases += 1;
    }
    for f in f32_samples().into_iter().take(3000) {
        same(&V::Float(f), &f, &format!("Float({:e})", f));
        cases += 1;
    }
    for n in [0usize, 1, 2, 250, 251, 252, 70000] {
        let b: Vec<u8> = (0..n).map(|i| (i * 7 % 256) as u8).collect();
        same(&V::Bytes(b.clone()), &&b[..], &format!("Bytes(len {})", n));
        cases += 1;
    }
    {
        let mut x = Vec::new();
        V::NULL.to_mysql_text(&mut x).expect("[C06.text.nopanic] NULL");
        assert!(x == [0xfb], "[C06.text.value] generic NULL is not the single byte 0xFB: {:?}", x);
        cases += 1;
    }
    for &(y, mo, d) in &[(1000u16, 1u8, 1u8), (1999, 12, 31), (2020, 2, 29), (9999, 12, 31), (2024, 6, 15)] {
        for &(h, mi, s, us) in &[(0u8, 0u8, 0u8, 0u32), (23, 59, 59, 999_999), (12, 0, 0, 1), (0, 0, 1, 0), (7, 8, 9, 100_000)] {
            let want = chrono::NaiveDate::from_ymd_opt(y as i32, mo as u32, d as u32).unwrap().and_hms_micro_opt(h as u32, mi as u32, s as u32, us).unwrap();
            same(&V::Date(y, mo, d, h, mi, s, us), &want, &format!("Date({},{},{},{},{},{},{})", y, mo, d, h, mi, s, us));
            cases += 1;
            nontrivial += 1;
        }
    }
    for &(d, h, m, s, us) in &[(0u32, 0u8, 0u8, 0u8, 0u32), (0, 23, 59, 59, 999_999), (1, 0, 0, 0, 0), (34, 22, 59, 59, 1), (0, 0, 0, 1, 500_000), (3, 4, 5, 6, 7)] {
        let secs = d as u64 * 86400 + h as u64 * 3600 + m as u64 * 60 + s as u64;
        let want = std::time::Duration::new(secs, us * 1000);
        same(&V::Time(false, d, h, m, s, us), &want, &format!("Time({},{},{},{},{})", d, h, m, s, us));
        cases += 1;
        nontrivial += 1;
    }
    println!("VERIF-NATIVE n2_text_value cases={} nontrivial={}", cases, nontrivial);
}
