// W (witness search): a protocol-level harness that drives the REAL server
// (`MysqlIntermediary::run_on`) over an in-memory transport with a scripted shim and a spec-level
// client (encoder, packet/response decoders written from the protocol documentation).
//
// Role in this framework (DESIGN.md 11.4): it DECIDES NOTHING on its own. It is run only when the
// proof leg reports a failing or undecidable obligation for a property on a changed tree, to look
// for a concrete failing input that replays on the real code (VIOLATION with a replay) -- and in the
// thorough tier as a labelled bounded stand-in. Every assertion message carries the clause it serves.
//
//@ group w_server
//@ inject src/lib.rs
//@ default-clause C20.w.nopanic
//@ check w_c01_chunkings  kind=bounded bound=5-commands,read-chunk-sizes-in-{1,2,3,5,7,64,4096},one-17MiB-command fn=run_on
//@ check w_c02_dispatch   kind=bounded bound=fixed-script-of-22-commands fn=run_on
//@ check w_c03_responses  kind=bounded bound=11-writer-programs,text-and-binary fn=run_on
//@ check w_c04_big        kind=bounded bound=row-sizes-k*(2^24-1)+d,k<=2,d-in-{-5..5},also-1000,text-and-binary-rows fn=run_on
//@ check w_c05_seq        kind=bounded bound=request-ids-{0,1,100,253,254,255},responses-up-to-600-packets,responses-filling-one-and-two-maximal-packets-exactly fn=run_on
//@ check w_c07_binary     kind=bounded bound=column-counts-{1,6,7,14,15,30},null-patterns-alternating-and-all fn=run_on
//@ check w_c08_params     kind=bounded bound=9-parameter-types,null-patterns,rebind-and-reuse fn=run_on
//@ check w_c09_meta       kind=bounded bound=column-counts-{0,1,3,251,300},names-up-to-70000-bytes,all-16-flag-bits fn=run_on
//@ check w_c10_registry   kind=bounded bound=7-scripts-over-3-statement-ids fn=run_on
//@ check w_c11_handshake  kind=bounded bound=4.1-and-3.20-layouts,5-user-names,accept-and-reject,pipelined,TLS-request-without-offer fn=run_on
//@ check w_c12_flush      kind=bounded bound=pipelining-with-every-split-point-of-a-3-command-stream fn=run_on
//@ check w_c13_errors     kind=bounded bound=all-defined-codes,4-messages,4-reporting-sites,messages-around-the-16-MiB-packet-limit fn=run_on
//@ check w_c14_counts     kind=bounded bound=12-u64-boundary-values-squared,zero-column-row-counts-0..=3,300,one-chain-of-completions-and-zero-column-resultsets-text-and-binary fn=run_on
//@ check w_c15_ints       kind=bounded bound=12-integer-columns(6-types-x-signedness),4-boundary-classes-via-generic-values,1-row-via-fixed-width-types fn=run_on
//@ check w_c16_c17_stmt   kind=bounded bound=7-scripts-of-executions-and-long-data-over-2-statements(rebind,reuse,reuse-after-long-data) fn=run_on
//@ check w_c20_malformed kind=bounded bound=48-odd-or-malformed-client-inputs(USE-spellings,unknown-and-truncated-commands,empty-payloads,fragment-ids,all-256-command-bytes) fn=run_on
//@ check w_c19_faults     kind=bounded bound=every-truncation-point-and-every-failing-transport-operation-of-a-6-command-conversation,every-failing-operation-of-a-conversation-with-multi-packet-responses,every-failing-operation-with-the-all-defaults-shim fn=run_on
#![allow(dead_code, unused_imports, unused_variables, clippy::all)]
use crate::{Column, ColumnFlags, ColumnType, ErrorKind, InitWriter, MysqlIntermediary, MysqlShim, ParamParser, QueryResultWriter, StatementMetaWriter};
use crate::myc;
use std::cell::RefCell;
use std::io::{self, Read, Write};
use std::rc::Rc;

const MAXP: usize = 16_777_215;

// ------------------------------------------------------------------------------------------ transport
pub struct Net {
    pub input: Vec<u8>,
    pub rpos: usize,
    pub chunks: Vec<usize>,
    pub ci: usize,
    pub out: Vec<u8>,
    pub flushed: usize,
    /// (read index, unflushed byte count) for every read that happened while written bytes were unflushed
    pub waited_unflushed: Vec<(usize, usize)>,
    pub reads: usize,
    pub ops: usize,
    pub fail_at: Option<usize>,
    pub fail_persistent: bool,
    pub fail_kind: io::ErrorKind,
    pub write_cap: usize,
    /// how many operations actually reported the injected fault
    pub faults: usize,
}
#[derive(Clone)]
pub struct Shared(pub Rc<RefCell<Net>>);
impl Shared {
    pub fn new(input: Vec<u8>, chunks: Vec<usize>) -> Shared {
        Shared(Rc::new(RefCell::new(Net { input, rpos: 0, chunks, ci: 0, out: vec![], flushed: 0, waited_unflushed: vec![], reads: 0, ops: 0, fail_at: None, fail_persistent: false, fail_kind: io::ErrorKind::BrokenPipe, write_cap: usize::MAX, faults: 0 })))
    }
    fn op(&self, is_write: bool) -> io::Result<()> {
        let mut n = self.0.borrow_mut();
        let k = n.ops;
        n.ops += 1;
        // std's write_all retries a write that reports Interrupted (by convention not an error): such a fault is
        // injected into reads and flushes only
        if is_write && n.fail_kind == io::ErrorKind::Interrupted { return Ok(()); }
        match n.fail_at {
            Some(f) if k == f || (n.fail_persistent && k > f) => { n.faults += 1; Err(io::Error::new(n.fail_kind, "injected transport fault")) }
            _ => Ok(()),
        }
    }
}
impl Read for Shared {
    fn read(&mut self, buf: &mut [u8]) -> io::Result<usize> {
        self.op(false)?;
        let mut n = self.0.borrow_mut();
        let unfl = n.out.len() - n.flushed;
        if unfl > 0 {
            // the server is about to wait for client bytes while reply bytes are still unflushed
            let r = n.reads;
            n.waited_unflushed.push((r, unfl));
        }
        n.reads += 1;
        let want = if n.chunks.is_empty() { buf.len() } else { let c = n.chunks[n.ci % n.chunks.len()]; n.ci += 1; c };
        let k = want.min(buf.len()).min(n.input.len() - n.rpos);
        let p = n.rpos;
        buf[..k].copy_from_slice(&n.input[p..p + k]);
        n.rpos += k;
        Ok(k)
    }
}
impl Write for Shared {
    fn write(&mut self, buf: &[u8]) -> io::Result<usize> {
        self.op(true)?;
        let mut n = self.0.borrow_mut();
        let k = buf.len().min(n.write_cap);
        n.out.extend_from_slice(&buf[..k]);
        Ok(k)
    }
    fn flush(&mut self) -> io::Result<()> {
        self.op(false)?;
        let mut n = self.0.borrow_mut();
        n.flushed = n.out.len();
        Ok(())
    }
}

// ------------------------------------------------------------------------------------------ client side (spec)
pub fn frame(payload: &[u8], seq0: u8) -> Vec<u8> {
    let mut v = Vec::with_capacity(payload.len() + 8);
    let mut seq = seq0;
    let mut rest = payload;
    loop {
        let l = rest.len().min(MAXP);
        v.extend_from_slice(&[(l & 0xff) as u8, ((l >> 8) & 0xff) as u8, ((l >> 16) & 0xff) as u8, seq]);
        v.extend_from_slice(&rest[..l]);
        rest = &rest[l..];
        seq = seq.wrapping_add(1);
        if l < MAXP {
            return v;
        }
    }
}
/// raw packets (seq, payload) of a byte stream; None if it does not end on a packet boundary
pub fn raw_packets(s: &[u8]) -> Option<Vec<(u8, Vec<u8>)>> {
    let mut v = vec![];
    let mut p = 0;
    while p < s.len() {
        if s.len() < p + 4 {
            return None;
        }
        let l = s[p] as usize | (s[p + 1] as usize) << 8 | (s[p + 2] as usize) << 16;
        if s.len() < p + 4 + l {
            return None;
        }
        v.push((s[p + 3], s[p + 4..p + 4 + l].to_vec()));
        p += 4 + l;
    }
    Some(v)
}
/// logical messages: (seq of first packet, number of packets, payload)
pub fn messages(raw: &[(u8, Vec<u8>)]) -> Option<Vec<(u8, usize, Vec<u8>)>> {
    let mut out = vec![];
    let mut i = 0;
    while i < raw.len() {
        let first = raw[i].0;
        let mut payload = vec![];
        let mut n = 0;
        loop {
            if i >= raw.len() {
                return None; // a maximal packet must be followed by another one
            }
            let l = raw[i].1.len();
            payload.extend_from_slice(&raw[i].1);
            i += 1;
            n += 1;
            if l < MAXP {
                break;
            }
        }
        out.push((first, n, payload));
    }
    Some(out)
}
pub fn lenenc(x: u64) -> Vec<u8> {
    if x < 251 { vec![x as u8] } else if x < 65536 { vec![0xfc, x as u8, (x >> 8) as u8] } else if x < 16777216 { vec![0xfd, x as u8, (x >> 8) as u8, (x >> 16) as u8] } else { let mut v = vec![0xfe]; v.extend_from_slice(&x.to_le_bytes()); v }
}
pub fn rd_lenenc(s: &[u8], p: &mut usize) -> Option<u64> {
    let b = *s.get(*p)?;
    *p += 1;
    let n = match b { 0xfc => 2, 0xfd => 3, 0xfe => 8, 0xfb | 0xff => return None, _ => return Some(b as u64) };
    if s.len() < *p + n { return None; }
    let mut x = 0u64;
    for k in 0..n { x |= (s[*p + k] as u64) << (8 * k); }
    *p += n;
    Some(x)
}
pub fn rd_lenstr<'a>(s: &'a [u8], p: &mut usize) -> Option<&'a [u8]> {
    let l = rd_lenenc(s, p)? as usize;
    if s.len() < *p + l { return None; }
    let r = &s[*p..*p + l];
    *p += l;
    Some(r)
}
#[derive(Debug, Clone, PartialEq)]
pub enum Resp {
    Ok { rows: u64, id: u64, status: u16 },
    Err { code: u16, state: Vec<u8>, msg: Vec<u8> },
    Rs { cols: Vec<ColDef>, rows: Vec<Vec<u8>>, status: u16 },
    RsErr { cols: Vec<ColDef>, rows: Vec<Vec<u8>>, code: u16, msg: Vec<u8> },
}
#[derive(Debug, Clone, PartialEq)]
pub struct ColDef { pub table: Vec<u8>, pub name: Vec<u8>, pub ty: u8, pub flags: u16, pub fixed: Vec<u8> }
pub fn parse_ok(p: &[u8]) -> Option<Resp> {
    if p.first() != Some(&0) { return None; }
    let mut q = 1;
    let rows = rd_lenenc(p, &mut q)?;
    let id = rd_lenenc(p, &mut q)?;
    if p.len() != q + 4 { return None; }
    Some(Resp::Ok { rows, id, status: p[q] as u16 | (p[q + 1] as u16) << 8 })
}
pub fn parse_err(p: &[u8]) -> Option<Resp> {
    if p.len() < 9 || p[0] != 0xff || p[3] != b'#' { return None; }
    Some(Resp::Err { code: p[1] as u16 | (p[2] as u16) << 8, state: p[4..9].to_vec(), msg: p[9..].to_vec() })
}
pub fn is_eof(p: &[u8]) -> bool { p.len() == 5 && p[0] == 0xfe }
pub fn parse_coldef(p: &[u8]) -> Option<ColDef> {
    let mut q = 0;
    if rd_lenstr(p, &mut q)? != b"def" { return None; }
    rd_lenstr(p, &mut q)?;
    let table = rd_lenstr(p, &mut q)?.to_vec();
    rd_lenstr(p, &mut q)?;
    let name = rd_lenstr(p, &mut q)?.to_vec();
    rd_lenstr(p, &mut q)?;
    if rd_lenenc(p, &mut q)? != 0x0c { return None; }
    if p.len() < q + 12 { return None; }
    let fixed = p[q..q + 12].to_vec();
    Some(ColDef { table, name, ty: p[q + 6], flags: p[q + 7] as u16 | (p[q + 8] as u16) << 8, fixed })
}
/// one complete response starting at msgs[*i] (text or binary rows are returned raw)
pub fn parse_response(msgs: &[(u8, usize, Vec<u8>)], i: &mut usize) -> Result<Vec<Resp>, String> {
    let mut units = vec![];
    loop {
        let p = &msgs.get(*i).ok_or("response missing")?.2;
        if p.first() == Some(&0xff) {
            *i += 1;
            units.push(parse_err(p).ok_or("malformed ERR")?);
            return Ok(units);
        }
        if p.first() == Some(&0x00) && parse_ok(p).is_some() {
            *i += 1;
            let ok = parse_ok(p).unwrap();
            let more = matches!(ok, Resp::Ok { status, .. } if status & 8 != 0);
            units.push(ok);
            if more { continue; } else { return Ok(units); }
        }
        // resultset
        let mut q = 0;
        let n = rd_lenenc(p, &mut q).ok_or("bad column count")? as usize;
        if q != p.len() || n == 0 { return Err(format!("unexpected packet {:?}", &p[..p.len().min(12)])); }
        *i += 1;
        let mut cols = vec![];
        for _ in 0..n {
            let c = &msgs.get(*i).ok_or("coldef missing")?.2;
            cols.push(parse_coldef(c).ok_or("malformed column definition")?);
            *i += 1;
        }
        if !is_eof(&msgs.get(*i).ok_or("EOF after coldefs missing")?.2) { return Err("EOF after coldefs missing".into()); }
        *i += 1;
        let mut rows = vec![];
        loop {
            let r = &msgs.get(*i).ok_or("resultset not terminated")?.2;
            *i += 1;
            if is_eof(r) {
                let status = r[3] as u16 | (r[4] as u16) << 8;
                units.push(Resp::Rs { cols, rows, status });
                if status & 8 != 0 { break; } else { return Ok(units); }
            }
            if r.first() == Some(&0xff) {
                let e = parse_err(r).ok_or("malformed ERR")?;
                if let Resp::Err { code, msg, .. } = e { units.push(Resp::RsErr { cols, rows, code, msg }); }
                return Ok(units);
            }
            rows.push(r.clone());
        }
    }
}
pub fn text_row(r: &[u8], n: usize) -> Result<Vec<Option<Vec<u8>>>, String> {
    let mut p = 0;
    let mut v = vec![];
    for _ in 0..n {
        if r.get(p) == Some(&0xfb) { p += 1; v.push(None); } else { v.push(Some(rd_lenstr(r, &mut p).ok_or("bad text cell")?.to_vec())); }
    }
    if p != r.len() { return Err(format!("{} trailing byte(s) after the {} declared column(s)", r.len() - p, n)); }
    Ok(v)
}
#[derive(Debug, Clone, PartialEq)]
pub enum BinVal { Null, I(i64), U(u64), B(Vec<u8>), Raw(Vec<u8>) }
pub fn bin_row(r: &[u8], cols: &[(u8, bool)]) -> Result<Vec<BinVal>, String> {
    let n = cols.len();
    if r.first() != Some(&0) { return Err("binary row header is not 0x00".into()); }
    let bl = (n + 9) / 8;
    if r.len() < 1 + bl { return Err("bitmap truncated".into()); }
    let bm = &r[1..1 + bl];
    for pos in 0..bl * 8 { if (pos < 2 || pos >= n + 2) && bm[pos / 8] & (1 << (pos % 8)) != 0 { return Err(format!("stray NULL-bitmap bit {}", pos)); } }
    let mut p = 1 + bl;
    let mut v = vec![];
    for (i, (ty, uns)) in cols.iter().enumerate() {
        if bm[(i + 2) / 8] & (1 << ((i + 2) % 8)) != 0 { v.push(BinVal::Null); continue; }
        let w = match ty { 1 => 1, 2 | 13 => 2, 3 | 9 => 4, 8 => 8, _ => 0 };
        if w > 0 {
            if r.len() < p + w { return Err("fixed-width cell truncated".into()); }
            let mut raw = [0u8; 8];
            raw[..w].copy_from_slice(&r[p..p + w]);
            p += w;
            let u = u64::from_le_bytes(raw);
            v.push(if *uns { BinVal::U(u) } else { BinVal::I(match w { 1 => u as u8 as i8 as i64, 2 => u as u16 as i16 as i64, 4 => u as u32 as i32 as i64, _ => u as i64 }) });
        } else if *ty == 10 || *ty == 11 || *ty == 12 || *ty == 7 {
            let l = *r.get(p).ok_or("temporal cell truncated")? as usize;
            if r.len() < p + 1 + l { return Err("temporal cell truncated".into()); }
            v.push(BinVal::Raw(r[p + 1..p + 1 + l].to_vec()));
            p += 1 + l;
        } else {
            v.push(BinVal::B(rd_lenstr(r, &mut p).ok_or("bad binary string cell")?.to_vec()));
        }
    }
    if p != r.len() { return Err(format!("{} trailing byte(s) in binary row", r.len() - p)); }
    Ok(v)
}

// client -> server
pub fn hs41(user: &[u8], caps_extra: u32) -> Vec<u8> {
    let caps: u32 = 0x0200 | 0x8000 | caps_extra;
    let mut p = caps.to_le_bytes().to_vec();
    p.extend_from_slice(&16777216u32.to_le_bytes());
    p.push(0x21);
    p.extend_from_slice(&[0; 23]);
    p.extend_from_slice(user);
    p.push(0);
    p.extend_from_slice(&[0]); // empty auth response
    p
}
pub fn hs320(user: &[u8]) -> Vec<u8> {
    let mut p = vec![0x05, 0x00, 0x00, 0x00, 0x01];
    p.extend_from_slice(user);
    p.push(0);
    p.extend_from_slice(b"scramble");
    p
}
pub fn cmd(b: u8, rest: &[u8]) -> Vec<u8> { let mut v = vec![b]; v.extend_from_slice(rest); v }
pub fn c_query(q: &[u8]) -> Vec<u8> { cmd(0x03, q) }
pub fn c_prepare(q: &[u8]) -> Vec<u8> { cmd(0x16, q) }
pub fn c_close(id: u32) -> Vec<u8> { cmd(0x19, &id.to_le_bytes()) }
pub fn c_long(id: u32, param: u16, data: &[u8]) -> Vec<u8> { let mut v = vec![0x18]; v.extend_from_slice(&id.to_le_bytes()); v.extend_from_slice(&param.to_le_bytes()); v.extend_from_slice(data); v }
/// params: (type code, unsigned, None = NULL | Some(wire bytes)); types = None => reuse (flag 0)
pub fn c_execute(id: u32, params: &[(u8, bool, Option<Vec<u8>>)], bind: bool) -> Vec<u8> {
    let mut v = vec![0x17];
    v.extend_from_slice(&id.to_le_bytes());
    v.push(0);
    v.extend_from_slice(&1u32.to_le_bytes());
    let n = params.len();
    if n > 0 {
        let mut bm = vec![0u8; (n + 7) / 8];
        for (i, p) in params.iter().enumerate() { if p.2.is_none() { bm[i / 8] |= 1 << (i % 8); } }
        v.extend_from_slice(&bm);
        v.push(if bind { 1 } else { 0 });
        if bind { for p in params { v.push(p.0); v.push(if p.1 { 0x80 } else { 0 }); } }
        for p in params { if let Some(b) = &p.2 { v.extend_from_slice(b); } }
    }
    v
}

// ------------------------------------------------------------------------------------------ scripted shim
#[derive(Debug, Clone, PartialEq)]
pub enum Ev { Query(Vec<u8>), Prepare(Vec<u8>), Execute(u32, Vec<(u8, String)>), Close(u32), Init(Vec<u8>), Auth(Option<Vec<u8>>) }
pub struct TShim { pub log: Rc<RefCell<Vec<Ev>>>, pub reject: bool, pub notes: Rc<RefCell<Vec<String>>> }
#[derive(Debug)]
pub struct TErr(pub String);
impl From<io::Error> for TErr { fn from(e: io::Error) -> Self { TErr(format!("io:{:?}:{}", e.kind(), e)) } }

fn vcol(name: &str, ty: ColumnType, flags: ColumnFlags) -> Column { Column { table: "t".into(), column: name.into(), coltype: ty, colflags: flags } }
fn num(s: &str) -> u64 { s.parse().unwrap() }

impl TShim {
    fn respond(&mut self, q: &str, results: QueryResultWriter<'_, Shared>) -> io::Result<()> {
        let parts: Vec<&str> = q.split(':').collect();
        match parts[0] {
            "ok" => results.completed(num(parts[1]), num(parts[2])),
            "err" => results.error(ErrorKind::from(num(parts[1]) as u16), parts[2].as_bytes()),
            "errraw" => results.error(ErrorKind::ER_YES, &[0x23u8, 0x00, 0xff, 0x41][..]),
            "errbig" => {
                // errbig:<n>: a message of n bytes (an ERR packet is a message like any other: it may span packets)
                let n = num(parts[1]) as usize;
                let msg: Vec<u8> = (0..n).map(|k| b'a' + (k % 26) as u8).collect();
                results.error(ErrorKind::ER_NO, &msg[..])
            }
            "rs" => {
                // rs:<ncols>:<nrows>
                let (nc, nr) = (num(parts[1]) as usize, num(parts[2]) as usize);
                let cols: Vec<Column> = (0..nc).map(|j| vcol(&format!("c{}", j), ColumnType::MYSQL_TYPE_VAR_STRING, ColumnFlags::empty())).collect();
                let mut w = results.start(&cols)?;
                for i in 0..nr {
                    for j in 0..nc { if (i + j) % 5 == 4 { w.write_col(None::<&str>)?; } else { w.write_col(format!("r{}c{}", i, j))?; } }
                    w.end_row()?;
                }
                w.finish()
            }
            "multi" => {
                let cols = vec![vcol("a", ColumnType::MYSQL_TYPE_VAR_STRING, ColumnFlags::empty())];
                let mut w = results.start(&cols)?;
                w.write_row(vec!["x"])?;
                let results = w.finish_one()?;
                let results = results.complete_one(3, 4)?;
                let mut w = results.start(&cols)?;
                w.write_row(vec!["y"])?;
                w.write_row(vec!["z"])?;
                let results = w.finish_one()?;
                results.no_more_results()
            }
            "rowserr" => {
                let cols = vec![vcol("a", ColumnType::MYSQL_TYPE_VAR_STRING, ColumnFlags::empty())];
                let mut w = results.start(&cols)?;
                w.write_row(vec!["x"])?;
                w.write_row(vec!["y"])?;
                w.finish_error(ErrorKind::ER_NO, &b"late".to_vec())
            }
            "colerr" => {
                // an error after the cells of a row were written but before the row was ended
                let cols = vec![vcol("a", ColumnType::MYSQL_TYPE_LONG, ColumnFlags::empty())];
                let mut w = results.start(&cols)?;
                w.write_col(1i32)?;
                w.end_row()?;
                w.write_col(7i32)?;
                w.finish_error(ErrorKind::ER_NO, &b"mid".to_vec())
            }
            "okerr" => {
                let r = results.complete_one(1, 2)?;
                r.error(ErrorKind::ER_NO, &b"after ok"[..])
            }
            "rserr" => {
                let cols = vec![vcol("a", ColumnType::MYSQL_TYPE_VAR_STRING, ColumnFlags::empty())];
                let mut w = results.start(&cols)?;
                w.write_row(vec!["x"])?;
                let r = w.finish_one()?;
                r.error(ErrorKind::ER_NO, &b"after rows"[..])
            }
            "big2" => {
                let (n1, n2) = (num(parts[1]) as usize, num(parts[2]) as usize);
                let cols = vec![vcol("a", ColumnType::MYSQL_TYPE_BLOB, ColumnFlags::empty()), vcol("b", ColumnType::MYSQL_TYPE_BLOB, ColumnFlags::empty())];
                let mut w = results.start(&cols)?;
                let v1: Vec<u8> = (0..n1).map(|k| (k % 251) as u8).collect();
                let v2: Vec<u8> = (0..n2).map(|k| (k % 13) as u8 + 100).collect();
                w.write_col(&v1[..])?;
                w.write_col(&v2[..])?;
                w.end_row()?;
                w.finish()
            }
            "namelen" => {
                let nl = num(parts[1]) as usize;
                let cols = vec![Column { table: "T".repeat(nl), column: "c".repeat(nl), coltype: ColumnType::MYSQL_TYPE_LONG, colflags: ColumnFlags::empty() }];
                let w = results.start(&cols)?;
                w.finish()
            }
            "zero" => {
                let mut w = results.start(&[])?;
                for _ in 0..num(parts[1]) { w.write_row(vec![1u8])?; }
                w.finish()
            }
            "chainzero" => {
                // completion, zero-column resultset (2 rows), zero-column resultset (1 row), completion
                let results = results.complete_one(300, 70000)?;
                let mut w = results.start(&[])?;
                w.write_row(vec![1u8])?;
                w.write_row(vec![1u8])?;
                let results = w.finish_one()?;
                let mut w = results.start(&[])?;
                w.write_row(vec![1u8])?;
                let results = w.finish_one()?;
                results.completed(7, 251)
            }
            "droprw" => {
                let cols = vec![vcol("a", ColumnType::MYSQL_TYPE_VAR_STRING, ColumnFlags::empty())];
                let mut w = results.start(&cols)?;
                w.write_col("p")?;
                drop(w);
                Ok(())
            }
            "dropqrw" => { let r = results.complete_one(9, 9)?; drop(r); Ok(()) }
            "overlong" => {
                let cols = vec![vcol("a", ColumnType::MYSQL_TYPE_VAR_STRING, ColumnFlags::empty())];
                let mut w = results.start(&cols)?;
                let r = w.write_row(vec!["x", "extra"]);
                self.notes.borrow_mut().push(format!("overlong:{}", r.is_err()));
                r?;
                w.finish()
            }
            "short" => {
                let cols = vec![vcol("a", ColumnType::MYSQL_TYPE_VAR_STRING, ColumnFlags::empty()), vcol("b", ColumnType::MYSQL_TYPE_VAR_STRING, ColumnFlags::empty())];
                let mut w = results.start(&cols)?;
                w.write_col("x")?;
                let r = w.end_row();
                self.notes.borrow_mut().push(format!("short:{}", r.is_err()));
                r?;
                w.finish()
            }
            "shortfin" => {
                // a row with fewer cells than declared, never ended explicitly, then finish(): refused, nothing malformed
                let cols = vec![vcol("a", ColumnType::MYSQL_TYPE_VAR_STRING, ColumnFlags::empty()), vcol("b", ColumnType::MYSQL_TYPE_VAR_STRING, ColumnFlags::empty())];
                let mut w = results.start(&cols)?;
                w.write_col("x")?;
                let r = w.finish();
                self.notes.borrow_mut().push(format!("shortfin:{}", r.is_err()));
                r
            }
            "big" => {
                let n = num(parts[1]) as usize;
                let cols = vec![vcol("blob", ColumnType::MYSQL_TYPE_BLOB, ColumnFlags::empty())];
                let mut w = results.start(&cols)?;
                let v: Vec<u8> = (0..n).map(|k| (k % 251) as u8).collect();
                w.write_col(&v[..])?;
                w.end_row()?;
                w.finish()
            }
            "meta" => {
                // meta:<ncols>:<namelen>
                let (nc, nl) = (num(parts[1]) as usize, num(parts[2]) as usize);
                let cols: Vec<Column> = (0..nc).map(|j| Column { table: format!("t{}\u{e9}", j), column: "n".repeat(nl) + &j.to_string(), coltype: ColumnType::MYSQL_TYPE_LONG, colflags: ColumnFlags::from_bits_truncate(1u16.rotate_left((j % 16) as u32) | if j % 3 == 0 { 0x1800 } else { 0 }) }).collect();
                let w = results.start(&cols)?;
                w.finish()
            }
            "bin" => {
                // bin:<ncols>:<nullmode>   (prepared statements only) ints in alternating types
                let nc = num(parts[1]) as usize;
                let mode = num(parts[2]);
                let cols: Vec<Column> = (0..nc).map(|j| match j % 3 { 0 => vcol("i", ColumnType::MYSQL_TYPE_LONGLONG, ColumnFlags::empty()), 1 => vcol("s", ColumnType::MYSQL_TYPE_VAR_STRING, ColumnFlags::empty()), _ => vcol("u", ColumnType::MYSQL_TYPE_SHORT, ColumnFlags::UNSIGNED_FLAG) }).collect();
                let mut w = results.start(&cols)?;
                for row in 0..2 {
                    for j in 0..nc {
                        let null = match mode { 0 => false, 1 => (j + row) % 2 == 0, _ => true };
                        if null { w.write_col(None::<i64>)?; } else { match j % 3 { 0 => w.write_col(-(j as i64) - 1)?, 1 => w.write_col(format!("v{}", j))?, _ => w.write_col(40000u16 + j as u16)? } }
                    }
                    w.end_row()?;
                }
                w.finish()
            }
            "ints" => {
                // every integer column type x signedness; one row per boundary class, written as generic
                // integer values (narrowed by the library to the smallest containing type) and as the
                // fixed-width Rust type of the column
                let tys = [ColumnType::MYSQL_TYPE_TINY, ColumnType::MYSQL_TYPE_SHORT, ColumnType::MYSQL_TYPE_YEAR, ColumnType::MYSQL_TYPE_INT24, ColumnType::MYSQL_TYPE_LONG, ColumnType::MYSQL_TYPE_LONGLONG];
                let mut cols = vec![];
                for t in tys.iter() { for uns in [false, true] { cols.push(vcol("n", *t, if uns { ColumnFlags::UNSIGNED_FLAG } else { ColumnFlags::empty() })); } }
                let mut w = results.start(&cols)?;
                for class in 0..4 {
                    for (j, c) in cols.iter().enumerate() {
                        let uns = j % 2 == 1;
                        let bits: u32 = match c.coltype { ColumnType::MYSQL_TYPE_TINY => 8, ColumnType::MYSQL_TYPE_SHORT | ColumnType::MYSQL_TYPE_YEAR => 16, ColumnType::MYSQL_TYPE_LONGLONG => 64, _ => 32 };
                        if uns {
                            let max = if bits == 64 { u64::MAX } else { (1u64 << bits) - 1 };
                            let v = [0u64, 1, max - 1, max][class];
                            // (generic UInt is only accepted by UNSIGNED BIGINT: "not as lenient with unsigned ints")
                            if bits == 64 { w.write_col(myc::value::Value::UInt(v))?; } else { w.write_col(myc::value::Value::Int(v as i64))?; }
                        } else {
                            let min = if bits == 64 { i64::MIN } else { -(1i64 << (bits - 1)) };
                            let v = [min, -1, 1, -(min + 1)][class];
                            w.write_col(myc::value::Value::Int(v))?;
                        }
                    }
                    w.end_row()?;
                }
                // the same through the fixed-width Rust types
                w.write_col(-128i8)?; w.write_col(255u8)?; w.write_col(-32768i16)?; w.write_col(65535u16)?; w.write_col(-1i16)?; w.write_col(2155u16)?;
                w.write_col(-2147483648i32)?; w.write_col(4294967295u32)?; w.write_col(-1i32)?; w.write_col(1u32)?; w.write_col(i64::MIN)?; w.write_col(u64::MAX)?;
                w.end_row()?;
                w.finish()
            }
            "notnull" => {
                let cols = vec![vcol("i", ColumnType::MYSQL_TYPE_LONG, ColumnFlags::NOT_NULL_FLAG)];
                let mut w = results.start(&cols)?;
                let r = w.write_col(None::<i32>);
                self.notes.borrow_mut().push(format!("notnull:{}", r.is_err()));
                r?;
                w.finish()
            }
            "time" => {
                let cols = vec![vcol("t", ColumnType::MYSQL_TYPE_TIME, ColumnFlags::empty())];
                let mut w = results.start(&cols)?;
                for secs in [0u64, 59, 60, 3600, 45000, 86400, 34 * 86400 + 59] { w.write_col(std::time::Duration::from_secs(secs))?; w.end_row()?; }
                w.write_col(std::time::Duration::new(60, 5000))?;
                w.end_row()?;
                w.finish()
            }
            _ => results.completed(0, 0),
        }
    }
}
impl MysqlShim<Shared> for TShim {
    type Error = TErr;
    fn on_prepare(&mut self, query: &str, info: StatementMetaWriter<'_, Shared>) -> Result<(), TErr> {
        self.log.borrow_mut().push(Ev::Prepare(query.as_bytes().to_vec()));
        let parts: Vec<&str> = query.split(':').collect();
        if parts[0] == "perr" || parts.len() < 4 { return Ok(info.error(ErrorKind::ER_NO, &b"no"[..])?); }
        // p:<id>:<nparams>:<ncols>
        let (id, np, nc) = (num(parts[1]) as u32, num(parts[2]) as usize, num(parts[3]) as usize);
        let params: Vec<Column> = (0..np).map(|j| vcol(&format!("p{}", j), ColumnType::MYSQL_TYPE_VAR_STRING, ColumnFlags::empty())).collect();
        let cols: Vec<Column> = (0..nc).map(|j| vcol(&format!("c{}", j), ColumnType::MYSQL_TYPE_LONG, ColumnFlags::from_bits_truncate(0x0101))).collect();
        Ok(info.reply(id, &params, &cols)?)
    }
    fn on_execute(&mut self, id: u32, params: ParamParser<'_>, results: QueryResultWriter<'_, Shared>) -> Result<(), TErr> {
        let mut seen = vec![];
        for p in params { seen.push((p.coltype as u8, format!("{:?}", p.value.into_inner()))); }
        self.log.borrow_mut().push(Ev::Execute(id, seen));
        let script = self.notes.borrow().iter().rev().find(|s| s.starts_with("exec=")).cloned().unwrap_or_default();
        if script.len() > 5 { return Ok(self.respond(&script[5..].to_string(), results)?); }
        Ok(results.completed(0, 0)?)
    }
    fn on_close(&mut self, stmt: u32) { self.log.borrow_mut().push(Ev::Close(stmt)); }
    fn on_query(&mut self, query: &str, results: QueryResultWriter<'_, Shared>) -> Result<(), TErr> {
        self.log.borrow_mut().push(Ev::Query(query.as_bytes().to_vec()));
        if query == "shimerr" { return Err(TErr("shim says no".into())); }
        if let Some(s) = query.strip_prefix("setexec=") { self.notes.borrow_mut().push(format!("exec={}", s)); return Ok(results.completed(0, 0)?); }
        Ok(self.respond(query, results)?)
    }
    fn on_init(&mut self, schema: &str, w: InitWriter<'_, Shared>) -> Result<(), TErr> {
        self.log.borrow_mut().push(Ev::Init(schema.as_bytes().to_vec()));
        if schema == "denied" { return Ok(w.error(ErrorKind::ER_DBACCESS_DENIED_ERROR, &b"nope"[..])?); }
        Ok(w.ok()?)
    }
    fn after_authentication(&mut self, ctx: &crate::AuthenticationContext<'_>) -> Result<(), TErr> {
        self.log.borrow_mut().push(Ev::Auth(ctx.username.clone()));
        if self.reject { Err(TErr("rejected".into())) } else { Ok(()) }
    }
}

/// a shim that keeps every default method of the trait (on_init answers OK by itself, authentication accepts)
pub struct DShim { pub log: Rc<RefCell<Vec<Ev>>> }
impl MysqlShim<Shared> for DShim {
    type Error = TErr;
    fn on_prepare(&mut self, query: &str, info: StatementMetaWriter<'_, Shared>) -> Result<(), TErr> {
        self.log.borrow_mut().push(Ev::Prepare(query.as_bytes().to_vec()));
        Ok(info.error(ErrorKind::ER_NO, &b"no"[..])?)
    }
    fn on_execute(&mut self, _: u32, _: ParamParser<'_>, results: QueryResultWriter<'_, Shared>) -> Result<(), TErr> { Ok(results.completed(0, 0)?) }
    fn on_close(&mut self, _: u32) {}
    fn on_query(&mut self, query: &str, results: QueryResultWriter<'_, Shared>) -> Result<(), TErr> {
        self.log.borrow_mut().push(Ev::Query(query.as_bytes().to_vec()));
        Ok(results.completed(1, 1)?)
    }
}
/// conversation with the all-defaults shim: (result, panicked, callbacks, operations performed)
pub fn converse_default(cmds: &[(Vec<u8>, u8)], fail_at: Option<(usize, bool)>) -> (Result<(), String>, bool, Vec<Ev>, usize, Vec<u8>) {
    let mut input = frame(&hs41(b"u", 0), 1);
    for (c, s) in cmds { input.extend_from_slice(&frame(c, *s)); }
    let net = Shared::new(input, vec![]);
    if let Some((k, pers)) = fail_at { let mut n = net.0.borrow_mut(); n.fail_at = Some(k); n.fail_persistent = pers; n.fail_kind = io::ErrorKind::BrokenPipe; }
    let log = Rc::new(RefCell::new(vec![]));
    let shim = DShim { log: log.clone() };
    let n2 = net.clone();
    let r = std::panic::catch_unwind(std::panic::AssertUnwindSafe(move || MysqlIntermediary::run_on(shim, n2)));
    let (result, panicked) = match r { Ok(Ok(())) => (Ok(()), false), Ok(Err(e)) => (Err(e.0), false), Err(_) => (Err("PANIC".into()), true) };
    let l = log.borrow().clone();
    let ops = net.0.borrow().ops;
    let out = net.0.borrow().out.clone();
    (result, panicked, l, ops, out)
}

pub struct Run { pub result: Result<(), String>, pub panicked: bool, pub log: Vec<Ev>, pub notes: Vec<String>, pub out: Vec<u8>, pub net: Shared }
/// one conversation: handshake payload + commands (payload, request seq), read chunk sizes
pub fn converse(hs: Vec<u8>, cmds: &[(Vec<u8>, u8)], chunks: Vec<usize>, reject: bool, fail_at: Option<(usize, bool)>, cut: Option<usize>) -> Run {
    converse_k(hs, cmds, chunks, reject, fail_at, cut, io::ErrorKind::BrokenPipe)
}
pub fn converse_k(hs: Vec<u8>, cmds: &[(Vec<u8>, u8)], chunks: Vec<usize>, reject: bool, fail_at: Option<(usize, bool)>, cut: Option<usize>, kind: io::ErrorKind) -> Run {
    let mut input = frame(&hs, 1);
    for (c, s) in cmds { input.extend_from_slice(&frame(c, *s)); }
    if let Some(k) = cut { input.truncate(k); }
    let net = Shared::new(input, chunks);
    if let Some((k, pers)) = fail_at { let mut n = net.0.borrow_mut(); n.fail_at = Some(k); n.fail_persistent = pers; n.fail_kind = kind; }
    let log = Rc::new(RefCell::new(vec![]));
    let notes = Rc::new(RefCell::new(vec![]));
    let shim = TShim { log: log.clone(), reject, notes: notes.clone() };
    let n2 = net.clone();
    let r = std::panic::catch_unwind(std::panic::AssertUnwindSafe(move || MysqlIntermediary::run_on(shim, n2)));
    let out = net.0.borrow().out.clone();
    let (result, panicked) = match r { Ok(Ok(())) => (Ok(()), false), Ok(Err(e)) => (Err(e.0), false), Err(_) => (Err("PANIC".into()), true) };
    let l = log.borrow().clone();
    let nn = notes.borrow().clone();
    Run { result, panicked, log: l, notes: nn, out, net }
}
pub fn converse_w(hs: Vec<u8>, cmds: &[(Vec<u8>, u8)], cap: usize) -> Run {
    let mut input = frame(&hs, 1);
    for (c, s) in cmds { input.extend_from_slice(&frame(c, *s)); }
    let net = Shared::new(input, vec![]);
    net.0.borrow_mut().write_cap = cap;
    let log = Rc::new(RefCell::new(vec![]));
    let notes = Rc::new(RefCell::new(vec![]));
    let shim = TShim { log: log.clone(), reject: false, notes: notes.clone() };
    let n2 = net.clone();
    let r = std::panic::catch_unwind(std::panic::AssertUnwindSafe(move || MysqlIntermediary::run_on(shim, n2)));
    let out = net.0.borrow().out.clone();
    let (result, panicked) = match r { Ok(Ok(())) => (Ok(()), false), Ok(Err(e)) => (Err(e.0), false), Err(_) => (Err("PANIC".into()), true) };
    let l = log.borrow().clone();
    let nn = notes.borrow().clone();
    Run { result, panicked, log: l, notes: nn, out, net }
}
/// server output as logical messages, after checking framing (C04) -- greeting and auth OK stripped
pub fn replies(run: &Run) -> Vec<(u8, usize, Vec<u8>)> {
    let raw = raw_packets(&run.out).expect("[C04.w.frame] server output does not end on a packet boundary");
    let msgs = messages(&raw).expect("[C04.w.frame] a maximal packet is not followed by a terminating packet");
    assert!(msgs.len() >= 1 && msgs[0].2.first() == Some(&10), "[C11.w.greeting] first packet is not a protocol-10 greeting");
    msgs[1..].to_vec()
}
fn quit() -> (Vec<u8>, u8) { (vec![0x01], 0) }

// ------------------------------------------------------------------------------------------ scenarios
#[test]
fn w_c01_chunkings() {
    let cmds: Vec<(Vec<u8>, u8)> = vec![(c_query(b"ok:1:2"), 0), (vec![0x0e], 0), (c_query(&vec![b'q'; 5000]), 0), (c_query(b"rs:2:2"), 3), quit()];
    let base = converse(hs41(b"u", 0), &cmds, vec![], false, None, None);
    assert!(base.result.is_ok(), "[C01.w.base] plain conversation failed: {:?}", base.result);
    for ch in [vec![1], vec![2], vec![3, 1], vec![5], vec![7, 1, 64], vec![64], vec![4096]] {
        let r = converse(hs41(b"u", 0), &cmds, ch.clone(), false, None, None);
        assert!(r.result.is_ok() && r.log == base.log, "[C01.w.chunking] commands seen by the shim depend on read chunking {:?}: {:?} vs {:?}", ch, r.log.len(), base.log.len());
        assert!(r.out == base.out, "[C01.w.chunking] replies depend on read chunking {:?}", ch);
    }
    // a read that fails (here: Interrupted) at any point of the conversation, also in the middle of a command:
    // whatever reached the shim must be a prefix of what was sent, byte for byte (and run_on must not report success)
    for ch in [vec![3usize], vec![7, 1, 64]] {
        for f in 0..60usize {
            let r = converse_k(hs41(b"u", 0), &cmds, ch.clone(), false, Some((f, false)), None, io::ErrorKind::Interrupted);
            assert!(r.log.len() <= base.log.len() && r.log[..] == base.log[..r.log.len()], "[C01.w.fault] after a failed read (operation {}, chunking {:?}) the shim saw commands the client never sent: {:?}", f, ch, r.log.last());
        }
    }
    // one command of 17 MiB (two fragments), small and odd chunk sizes
    let big: Vec<u8> = (0..17 * 1024 * 1024).map(|k| b'a' + (k % 23) as u8).collect();
    for ch in [vec![], vec![65521], vec![MAXP + 3, 1]] {
        let r = converse(hs41(b"u", 0), &[(c_query(&big), 0), quit()], ch, false, None, None);
        assert!(r.result.is_ok(), "[C01.w.big] multi-packet command failed: {:?}", r.result);
        assert!(matches!(r.log.get(1), Some(Ev::Query(q)) if q == &big), "[C01.w.big] multi-packet command did not reach the shim byte for byte");
    }
    // commands whose payload is an exact multiple of 0xFFFFFF (closed by an empty packet), with nothing after them:
    // delivered once, and the connection then ends cleanly at the command boundary
    for k in [1usize, 2] {
        let exact: Vec<u8> = (0..k * MAXP - 1).map(|j| b'a' + (j % 19) as u8).collect();
        for ch in [vec![], vec![MAXP + 4, 4], vec![65521]] {
            let r = converse(hs41(b"u", 0), &[(c_query(&exact), 0)], ch.clone(), false, None, None);
            assert!(matches!(r.log.get(1), Some(Ev::Query(q)) if q == &exact) && r.log.len() == 2, "[C01.w.exact] a command of exactly {}*0xFFFFFF bytes (chunking {:?}) did not reach the shim exactly once", k, ch);
            assert!(r.result.is_ok(), "[C01.w.exact] the stream ended right after a command of exactly {}*0xFFFFFF bytes, run_on returned {:?}", k, r.result);
        }
    }
    println!("VERIF-NATIVE w_c01_chunkings cases=17 nontrivial=17");
}

#[test]
fn w_c02_dispatch() {
    let texts: Vec<&[u8]> = vec![b"SELECT 1", b"SELECT @x", b"select @", b"USER()", b"use", b"usedb", b"SELECT @@version", b"select @@max_allowed_packet", b"SELECT @@max_allowed_packet", b"ok:0:0"];
    let mut cmds: Vec<(Vec<u8>, u8)> = texts.iter().map(|t| (c_query(t), 0)).collect();
    cmds.push((c_query(b"USE  `db1`; "), 0));
    cmds.push((c_query(b"use db2"), 0));
    cmds.push((cmd(0x02, b"db3"), 0));
    cmds.push((c_prepare(b"p:7:1:1"), 0));
    cmds.push((c_execute(7, &[(253, false, Some(vec![2, b'h', b'i']))], true), 0));
    cmds.push((c_long(7, 0, b"abc"), 0));
    cmds.push((vec![0x0e], 0));
    cmds.push((cmd(0x04, b"tbl\0"), 0));
    cmds.push((c_close(7), 0));
    cmds.push((c_close(7), 0));
    cmds.push((c_close(0xdeadbeef), 0));
    cmds.push(quit());
    let r = converse(hs41(b"u", 0), &cmds, vec![], false, None, None);
    assert!(r.result.is_ok(), "[C02.w.run] conversation failed: {:?}", r.result);
    let mut want = vec![Ev::Auth(Some(b"u".to_vec()))];
    for t in [&b"SELECT 1"[..], b"SELECT @x", b"select @", b"USER()", b"use", b"usedb"] { want.push(Ev::Query(t.to_vec())); }
    want.push(Ev::Query(b"ok:0:0".to_vec()));
    want.push(Ev::Init(b"db1".to_vec()));
    want.push(Ev::Init(b"db2".to_vec()));
    want.push(Ev::Init(b"db3".to_vec()));
    want.push(Ev::Prepare(b"p:7:1:1".to_vec()));
    want.push(Ev::Execute(7, vec![(253, "Bytes([104, 105])".to_string())]));
    want.push(Ev::Close(7));
    want.push(Ev::Close(7));
    want.push(Ev::Close(0xdeadbeef));
    assert!(r.log == want, "[C02.w.dispatch] shim callbacks differ from the dispatch table:\n got {:?}\nwant {:?}", r.log, want);
    // non-UTF-8 text never reaches the shim
    let r = converse(hs41(b"u", 0), &[(c_query(&[b'S', 0xff, 0xfe]), 0), quit()], vec![], false, None, None);
    assert!(r.result.is_err() && r.log.len() == 1, "[C02.w.utf8] non-UTF-8 query text was handed to the shim or accepted");
    println!("VERIF-NATIVE w_c02_dispatch cases=23 nontrivial=23");
}

fn one(q: &[u8]) -> (Run, Vec<(u8, usize, Vec<u8>)>) {
    let r = converse(hs41(b"u", 0), &[(c_query(q), 0), (vec![0x0e], 0), quit()], vec![], false, None, None);
    let m = replies(&r);
    (r, m)
}
#[test]
fn w_c03_responses() {
    let mut cases = 0;
    for q in ["ok:5:6", "err:1064:bad", "rs:1:0", "rs:3:4", "multi", "rowserr", "okerr", "rserr", "zero:0", "zero:3", "droprw", "dropqrw", "USE x", "SELECT @@foo", "SELECT @@max_allowed_packet"] {
        let (r, m) = one(q.as_bytes());
        assert!(r.result.is_ok(), "[C03.w.run] {} failed: {:?}", q, r.result);
        let mut i = 1; // m[0] is the auth OK
        let units = parse_response(&m, &mut i).unwrap_or_else(|e| panic!("[C03.w.grammar] response to {} is not conformant: {}", q, e));
        // the next reply (to PING) must be exactly one OK: nothing extra, nothing shifted
        let ping = parse_response(&m, &mut i).unwrap_or_else(|e| panic!("[C03.w.boundary] reply after {} not conformant: {}", q, e));
        assert!(i == m.len() && ping == vec![Resp::Ok { rows: 0, id: 0, status: 0 }], "[C03.w.boundary] the reply following {} is shifted or extra packets were sent ({} of {} messages consumed)", q, i, m.len());
        for (k, u) in units.iter().enumerate() {
            let more = match u { Resp::Ok { status, .. } | Resp::Rs { status, .. } => status & 8 != 0, _ => false };
            assert!(more == (k + 1 < units.len()), "[C03.w.more] more-results flag wrong on unit {} of the response to {}", k, q);
        }
        match q {
            "multi" => assert!(units.len() == 3 && matches!(&units[1], Resp::Ok { rows: 3, id: 4, .. }), "[C03.w.multi] chained resultsets not delivered in order"),
            "okerr" => assert!(units.len() == 2 && matches!(&units[0], Resp::Ok { rows: 1, id: 2, .. }) && matches!(&units[1], Resp::Err { code: 1002, .. }), "[C03.w.chainerr] completion followed by an error not delivered as OK(more) + ERR: {:?}", units),
            "rserr" => assert!(units.len() == 2 && matches!(&units[0], Resp::Rs { rows, .. } if rows.len() == 1) && matches!(&units[1], Resp::Err { code: 1002, .. }), "[C03.w.chainerr] resultset followed by an error not delivered as resultset(more) + ERR: {:?}", units),
            "rowserr" => assert!(matches!(&units[0], Resp::RsErr { rows, code: 1002, msg, .. } if rows.len() == 2 && msg == b"late"), "[C13.w.rows] error after rows not delivered: {:?}", units),
            "zero:3" => assert!(units == vec![Resp::Ok { rows: 3, id: 0, status: 0 }], "[C14.w.zero] zero-column resultset must be OK(rows ended): {:?}", units),
            "droprw" => assert!(matches!(&units[0], Resp::Rs { rows, .. } if rows.len() == 1), "[C03.w.drop] dropped row writer must end its row and resultset"),
            "dropqrw" => assert!(units == vec![Resp::Ok { rows: 9, id: 9, status: 0 }], "[C03.w.drop] dropped result writer must emit its completion"),
            "rs:3:4" => if let Resp::Rs { cols, rows, .. } = &units[0] {
                assert!(cols.len() == 3 && rows.len() == 4, "[C03.w.rs] resultset shape differs");
                for (ri, row) in rows.iter().enumerate() {
                    let cells = text_row(row, 3).unwrap_or_else(|e| panic!("[C06.w.row] malformed text row: {}", e));
                    for (j, c) in cells.iter().enumerate() {
                        let want = if (ri + j) % 5 == 4 { None } else { Some(format!("r{}c{}", ri, j).into_bytes()) };
                        assert!(c == &want, "[C06.w.cell] text cell ({},{}) differs", ri, j);
                    }
                }
            } else { panic!("[C03.w.rs] not a resultset") },
            _ => {}
        }
        cases += 1;
    }
    // shape errors are refused, nothing malformed is sent
    for q in ["overlong", "short"] {
        let (r, _m) = one(q.as_bytes());
        assert!(r.notes.iter().any(|n| n == &format!("{}:true", q)), "[C03.w.shape] a row contradicting the declared shape ({}) was accepted", q);
        assert!(r.result.is_err(), "[C03.w.shape] shape error not propagated");
        cases += 1;
    }
    // no reply for CLOSE / SEND_LONG_DATA / QUIT
    let r = converse(hs41(b"u", 0), &[(c_prepare(b"p:1:1:0"), 0), (c_long(1, 0, b"x"), 0), (c_close(1), 0), quit()], vec![], false, None, None);
    let m = replies(&r);
    assert!(r.result.is_ok() && m.len() == 1 + 3, "[C03.w.noreply] CLOSE / SEND_LONG_DATA / QUIT produced reply bytes ({} messages)", m.len());
    // a short last row that is never ended explicitly must be refused by finish() (text and binary), not sent
    for bin in [false, true] {
        let r = if bin { converse(hs41(b"u", 0), &[(c_query(b"setexec=shortfin"), 0), (c_prepare(b"p:1:0:0"), 0), (c_execute(1, &[], true), 0), quit()], vec![], false, None, None) }
                else { converse(hs41(b"u", 0), &[(c_query(b"shortfin"), 0), quit()], vec![], false, None, None) };
        assert!(r.panicked || r.notes.iter().any(|n| n == "shortfin:true"), "[C03.w.shape] finish() accepted a last row with fewer cells than declared ({} protocol)", if bin { "binary" } else { "text" });
        cases += 1;
    }
    // commands that expect no reply produce no bytes -- also when they are refused (a stray packet would be read as the
    // reply to the client's NEXT command and shift everything after it)
    let auth_only = converse(hs41(b"u", 0), &[quit()], vec![], false, None, None).out.len();
    for (what, script) in [("CLOSE of a live id", vec![(c_prepare(b"p:1:0:0"), 0), (c_close(1), 0)]), ("CLOSE of an unknown id", vec![(c_close(9), 0)]),
                           ("long data for a live id", vec![(c_prepare(b"p:1:1:0"), 0), (c_long(1, 0, b"abc"), 0)]),
                           ("long data for an unknown id", vec![(c_long(7, 0, b"abc"), 0)]),
                           ("long data for a closed id", vec![(c_prepare(b"p:1:1:0"), 0), (c_close(1), 0), (c_long(1, 0, b"abc"), 0)])] {
        let mut before = script.clone();
        let last = before.pop().unwrap();
        before.push(quit());
        let base = converse(hs41(b"u", 0), &before, vec![], false, None, None);
        let mut cmds = script.clone();
        cmds.push((vec![0x0e], 0));
        cmds.push(quit());
        let r = converse(hs41(b"u", 0), &cmds, vec![], false, None, None);
        assert!(!r.panicked, "[C03.w.noreply] {} made run_on panic", what);
        let extra = &r.out[base.out.len().min(r.out.len())..];
        // either the connection ended (no further bytes at all) or exactly the PING was answered
        let ok_only = raw_packets(extra).map(|ps| ps.len() == 1 && parse_ok(&ps[0].1).is_some()).unwrap_or(false);
        assert!(extra.is_empty() || ok_only, "[C03.w.noreply] {} produced bytes of its own: {:?}", what, &extra[..extra.len().min(24)]);
        let _ = last;
        cases += 1;
    }
    let _ = auth_only;
    println!("VERIF-NATIVE w_c03_responses cases={} nontrivial={}", cases + 1, cases + 1);
}

#[test]
fn w_c04_big() {
    let mut cases = 0;
    for k in 0..=2usize {
        for d in -5i64..=5 {
            // logical row message = lenenc prefix + blob; choose blob so that the ROW message has size k*MAXP + d
            let target = (k * MAXP) as i64 + d;
            if target < 10 { continue; }
            let pref = if target < 70000 { 3 } else { 4 } as i64;
            let blob = if (target - pref) >= 16777216 { target - 9 } else { target - pref };
            if blob < 0 { continue; }
            let (r, m) = one(format!("big:{}", blob).as_bytes());
            assert!(r.result.is_ok(), "[C04.w.run] big row failed: {:?}", r.result);
            let mut i = 1;
            let units = parse_response(&m, &mut i).unwrap_or_else(|e| panic!("[C04.w.reassembly] response with a {}-byte row not conformant after reassembly: {}", blob, e));
            if let Resp::Rs { rows, .. } = &units[0] {
                let cells = text_row(&rows[0], 1).unwrap_or_else(|e| panic!("[C04.w.reassembly] big row malformed: {}", e));
                let v = cells[0].as_ref().unwrap();
                assert!(v.len() as i64 == blob && v.iter().enumerate().all(|(k, b)| *b == (k % 251) as u8), "[C04.w.intact] a {}-byte value did not arrive intact", blob);
            } else { panic!("[C04.w.reassembly] not a resultset") }
            let ping = parse_response(&m, &mut i).expect("[C04.w.boundary] reply after a big row not conformant");
            assert!(i == m.len() && ping.len() == 1, "[C04.w.boundary] stray packets after a big row");
            cases += 1;
        }
    }
    for delta in [12i64, 9, 8, 7, 6, 5, 4, 3, 2, 1, 0, -1] {
        // row = lenenc(n1) (4 bytes) + v1 + lenenc(3) (1 byte) + "abc": the write boundary after v1 lies `delta - 4` bytes before MAXP
        let n1 = MAXP as i64 - delta;
        let (r, m) = one(format!("big2:{}:3", n1).as_bytes());
        assert!(r.result.is_ok(), "[C04.w.run] two-column big row failed: {:?}", r.result);
        let mut i = 1;
        let units = parse_response(&m, &mut i).unwrap_or_else(|e| panic!("[C04.w.reassembly] row written as {} + 3 bytes not conformant after reassembly: {}", n1, e));
        if let Resp::Rs { rows, .. } = &units[0] {
            assert!(rows.len() == 1, "[C04.w.split] one logical row arrived as {} messages (first value {} bytes)", rows.len(), n1);
            let cells = text_row(&rows[0], 2).unwrap_or_else(|e| panic!("[C04.w.reassembly] big row malformed: {}", e));
            assert!(cells[0].as_ref().unwrap().len() as i64 == n1 && cells[1].as_ref().unwrap() == &vec![100u8, 101, 102], "[C04.w.intact] two-column row with a {}-byte first value did not arrive intact", n1);
        } else { panic!("[C04.w.reassembly] not a resultset") }
        let ping = parse_response(&m, &mut i).expect("[C04.w.boundary] reply after a big row not conformant");
        assert!(i == m.len() && ping.len() == 1, "[C04.w.boundary] stray packets after a big two-column row");
        cases += 1;
    }
    // the same through the binary protocol (the row is buffered by the row writer and handed to the
    // connection in one piece at end_row)
    for blob in [MAXP as i64 - 10, MAXP as i64 - 5, MAXP as i64 - 4, MAXP as i64 + 1, 2 * MAXP as i64 - 5] {
        let script = format!("setexec=big:{}", blob);
        let r = converse(hs41(b"u", 0), &[(c_query(script.as_bytes()), 0), (c_prepare(b"p:1:0:0"), 0), (c_execute(1, &[], true), 0), (vec![0x0e], 0), quit()], vec![], false, None, None);
        assert!(r.result.is_ok(), "[C04.w.run] big binary row failed: {:?}", r.result);
        let m = replies(&r);
        let mut i = 3;
        let units = parse_response(&m, &mut i).unwrap_or_else(|e| panic!("[C04.w.reassembly] binary response with a {}-byte value not conformant after reassembly: {}", blob, e));
        if let Resp::Rs { rows, .. } = &units[0] {
            assert!(rows.len() == 1, "[C04.w.split] one binary row arrived as {} messages", rows.len());
            let vals = bin_row(&rows[0], &[(252, false)]).unwrap_or_else(|e| panic!("[C04.w.reassembly] big binary row malformed ({} bytes written): {}", blob, e));
            match &vals[0] {
                BinVal::B(v) => assert!(v.len() as i64 == blob && v.iter().enumerate().all(|(k, b)| *b == (k % 251) as u8), "[C04.w.intact] a {}-byte value in a binary row arrived with {} bytes", blob, v.len()),
                other => panic!("[C04.w.intact] big binary cell arrived as {:?}", other),
            }
        } else { panic!("[C04.w.reassembly] not a resultset") }
        let ping = parse_response(&m, &mut i).expect("[C04.w.boundary] reply after a big binary row not conformant");
        assert!(i == m.len() && ping.len() == 1, "[C04.w.boundary] stray packets after a big binary row");
        cases += 1;
    }
    // a transport that accepts only a few bytes per write call must not change what is sent
    let cmds: Vec<(Vec<u8>, u8)> = vec![(c_query(b"rs:2:3"), 0), (c_query(b"big:70000"), 0), (c_query(b"ok:1:1"), 0), quit()];
    let full = converse(hs41(b"u", 0), &cmds, vec![], false, None, None);
    for cap in [1usize, 7, 4096, 65536] {
        let r = converse_w(hs41(b"u", 0), &cmds, cap);
        assert!(r.result.is_ok(), "[C04.w.shortwrite] conversation over a transport writing at most {} bytes per call failed: {:?}", cap, r.result);
        assert!(r.out == full.out, "[C04.w.shortwrite] bytes on the wire differ when the transport accepts at most {} bytes per write ({} vs {} bytes)", cap, r.out.len(), full.out.len());
        cases += 1;
    }
    println!("VERIF-NATIVE w_c04_big cases={} nontrivial={}", cases, cases);
}

#[test]
fn w_c05_seq() {
    let mut cases = 0;
    for s in [0u8, 1, 100, 253, 254, 255] {
        // (the last two: a row that fills a maximal packet exactly, so that an empty packet closes it, and
        // one that needs two maximal packets)
        for q in ["ok:1:1", "rs:1:300", "rs:2:600", "big:16777211", "big:33554426"] {
            if q.starts_with("big") && s != 0 && s != 253 && s != 255 { continue; }
            let r = converse(hs41(b"u", 0), &[(c_query(q.as_bytes()), s), quit()], vec![], false, None, None);
            assert!(r.result.is_ok(), "[C05.w.run] request id {} failed: {:?}", s, r.result);
            let raw = raw_packets(&r.out).expect("[C04.w.frame] not on a packet boundary");
            assert!(raw[0].0 == 0, "[C05.w.greeting] greeting must carry id 0");
            assert!(raw[1].0 == 2, "[C05.w.auth] auth reply must carry the handshake's id + 1");
            let resp = &raw[2..];
            for (k, (seq, _)) in resp.iter().enumerate() {
                let want = s.wrapping_add(1).wrapping_add(k as u8);
                assert!(*seq == want, "[C05.w.consecutive] packet {} of the response to a request with id {} carries id {} instead of {}", k, s, seq, want);
            }
            cases += 1;
        }
    }
    // requests that span several packets: the reply starts one above the id of the request's LAST packet
    for (len, nfrag) in [(MAXP - 1, 2u8), (MAXP + 10, 2), (2 * MAXP - 1, 3)] {
        let big: Vec<u8> = (0..len).map(|j| b'a' + (j % 17) as u8).collect();   // payload = 1 command byte + len
        for s in [0u8, 254] {
            let r = converse(hs41(b"u", 0), &[(c_query(&big), s), quit()], vec![], false, None, None);
            assert!(r.result.is_ok(), "[C05.w.run] a {}-packet request with first id {} failed: {:?}", nfrag, s, r.result);
            let raw = raw_packets(&r.out).expect("[C04.w.frame] not on a packet boundary");
            let want = s.wrapping_add(nfrag);
            assert!(raw.len() >= 3 && raw[2].0 == want, "[C05.w.lastseq] the reply to a request sent as {} packets with ids {}.. starts with id {} instead of {}", nfrag, s, raw.get(2).map(|x| x.0).unwrap_or(0), want);
            cases += 1;
        }
    }
    println!("VERIF-NATIVE w_c05_seq cases={} nontrivial={}", cases, cases);
}

#[test]
fn w_c07_binary() {
    let mut cases = 0;
    for nc in [1usize, 6, 7, 14, 15, 30] {
        for mode in 0..3u64 {
            let script = format!("setexec=bin:{}:{}", nc, mode);
            let r = converse(hs41(b"u", 0), &[(c_query(script.as_bytes()), 0), (c_prepare(b"p:1:0:0"), 0), (c_execute(1, &[], true), 0), quit()], vec![], false, None, None);
            assert!(r.result.is_ok(), "[C07.w.run] binary resultset failed: {:?}", r.result);
            let m = replies(&r);
            let mut i = 2; // auth OK, OK for setexec
            let _prep = &m[i]; i += 1; // prepare_ok (no params, no cols)
            let units = parse_response(&m, &mut i).unwrap_or_else(|e| panic!("[C07.w.grammar] binary response not conformant: {}", e));
            if let Resp::Rs { cols, rows, .. } = &units[0] {
                let tys: Vec<(u8, bool)> = cols.iter().map(|c| (c.ty, c.flags & 32 != 0)).collect();
                for (ri, row) in rows.iter().enumerate() {
                    let vals = bin_row(row, &tys).unwrap_or_else(|e| panic!("[C07.w.row] binary row malformed ({} columns, null mode {}): {}", nc, mode, e));
                    for (j, v) in vals.iter().enumerate() {
                        let null = match mode { 0 => false, 1 => (j + ri) % 2 == 0, _ => true };
                        let want = if null { BinVal::Null } else { match j % 3 { 0 => BinVal::I(-(j as i64) - 1), 1 => BinVal::B(format!("v{}", j).into_bytes()), _ => BinVal::U(40000 + j as u64) } };
                        assert!(v == &want, "[C07.w.cell] binary cell ({},{}) of {} columns arrived as {:?}, written {:?}", ri, j, nc, v, want);
                    }
                }
            } else { panic!("[C07.w.grammar] not a resultset") }
            cases += 1;
        }
    }
    // NULL for NOT NULL refused
    let r = converse(hs41(b"u", 0), &[(c_query(b"setexec=notnull"), 0), (c_prepare(b"p:1:0:0"), 0), (c_execute(1, &[], true), 0), quit()], vec![], false, None, None);
    assert!(r.notes.iter().any(|n| n == "notnull:true"), "[C07.w.notnull] NULL accepted for a NOT NULL column");
    // TIME values
    let r = converse(hs41(b"u", 0), &[(c_query(b"setexec=time"), 0), (c_prepare(b"p:1:0:0"), 0), (c_execute(1, &[], true), 0), quit()], vec![], false, None, None);
    assert!(r.result.is_ok(), "[C07.w.time] TIME resultset failed: {:?}", r.result);
    let m = replies(&r);
    let mut i = 3;
    let units = parse_response(&m, &mut i).expect("[C07.w.time] response not conformant");
    if let Resp::Rs { rows, .. } = &units[0] {
        let want_secs = [0u64, 59, 60, 3600, 45000, 86400, 34 * 86400 + 59, 60];
        for (k, row) in rows.iter().enumerate() {
            let v = bin_row(row, &[(11, false)]).expect("[C07.w.time] malformed TIME row");
            if let BinVal::Raw(b) = &v[0] {
                let (secs, us) = if b.is_empty() { (0, 0) } else {
                    let d = u32::from_le_bytes([b[1], b[2], b[3], b[4]]) as u64;
                    (d * 86400 + b[5] as u64 * 3600 + b[6] as u64 * 60 + b[7] as u64, if b.len() == 12 { u32::from_le_bytes([b[8], b[9], b[10], b[11]]) } else { 0 })
                };
                assert!(secs == want_secs[k] && us == if k == 7 { 5 } else { 0 }, "[C07.w.time] TIME value {}s arrived as {}s {}us ({:?})", want_secs[k], secs, us, b);
            } else { panic!("[C07.w.time] not a temporal cell") }
        }
    }
    println!("VERIF-NATIVE w_c07_binary cases={} nontrivial={}", cases + 2, cases + 2);
}

#[test]
fn w_c08_params() {
    // one value of every supported type, with NULLs interleaved
    let le = |x: u64, w: usize| x.to_le_bytes()[..w].to_vec();
    let params: Vec<(u8, bool, Option<Vec<u8>>)> = vec![
        (1, false, Some(vec![0x80])), (1, true, Some(vec![0x80])), (2, false, Some(le(0xfffe, 2))), (3, true, Some(le(0xfffffffe, 4))),
        (8, false, Some(le(u64::MAX, 8))), (253, false, None), (253, false, Some(vec![3, b'a', b'b', b'c'])), (12, false, Some(vec![11, 0xda, 0x07, 10, 17, 19, 27, 30, 1, 0, 0, 0])), (11, false, Some(vec![12, 0, 1, 0, 0, 0, 2, 3, 4, 5, 0, 0, 0])),
    ];
    let r = converse(hs41(b"u", 0), &[(c_prepare(b"p:1:9:0"), 0), (c_execute(1, &params, true), 0), quit()], vec![], false, None, None);
    assert!(r.result.is_ok(), "[C08.w.run] execute failed: {:?}", r.result);
    let want = vec![(1u8, "Int(-128)"), (1, "UInt(128)"), (2, "Int(-2)"), (3, "UInt(4294967294)"), (8, "Int(-1)"), (253, "NULL"), (253, "Bytes([97, 98, 99])"), (12, "Datetime([218, 7, 10, 17, 19, 27, 30, 1, 0, 0, 0])"), (11, "Time([0, 1, 0, 0, 0, 2, 3, 4, 5, 0, 0, 0])")];
    match r.log.get(2) {
        Some(Ev::Execute(1, seen)) => {
            assert!(seen.len() == want.len(), "[C08.w.count] shim saw {} parameters, statement declared {}", seen.len(), want.len());
            for (k, (s, w)) in seen.iter().zip(want.iter()).enumerate() { assert!(s.0 == w.0 && s.1 == w.1, "[C08.w.value] parameter {} decoded as {:?}, client bound {:?}", k, s, w); }
        }
        o => panic!("[C08.w.run] execute did not reach the shim: {:?}", o),
    }
    // conversions incl. microseconds
    use crate::value::Value;
    let raw = [11u8, 0xda, 0x07, 10, 17, 19, 27, 30, 0x40, 0xe2, 0x01, 0x00];
    let mut inp = &raw[..];
    let v = Value::parse_from(&mut inp, ColumnType::MYSQL_TYPE_DATETIME, false).unwrap();
    let d: chrono::NaiveDateTime = v.into();
    assert!(format!("{}", d) == "2010-10-17 19:27:30.123456", "[C08.w.micros] DATETIME microseconds lost: {}", d);
    let raw = [12u8, 0, 1, 0, 0, 0, 2, 3, 4, 0x40, 0xe2, 0x01, 0x00];
    let mut inp = &raw[..];
    let v = Value::parse_from(&mut inp, ColumnType::MYSQL_TYPE_TIME, false).unwrap();
    let d: std::time::Duration = v.into();
    assert!(d == std::time::Duration::new(86400 + 2 * 3600 + 3 * 60 + 4, 123456000), "[C08.w.micros] TIME microseconds lost: {:?}", d);
    println!("VERIF-NATIVE w_c08_params cases=11 nontrivial=11");
}

#[test]
fn w_c09_meta() {
    let mut cases = 0;
    for (nc, nl) in [(1usize, 1usize), (3, 300), (251, 2), (300, 1), (2, 70000)] {
        let (r, m) = one(format!("meta:{}:{}", nc, nl).as_bytes());
        assert!(r.result.is_ok(), "[C09.w.run] failed: {:?}", r.result);
        let mut i = 1;
        let units = parse_response(&m, &mut i).unwrap_or_else(|e| panic!("[C09.w.grammar] header with {} columns not conformant: {}", nc, e));
        if let Resp::Rs { cols, .. } = &units[0] {
            assert!(cols.len() == nc, "[C09.w.count] client sees {} columns, shim declared {}", cols.len(), nc);
            for (j, c) in cols.iter().enumerate() {
                let wf = 1u16.rotate_left((j % 16) as u32) | if j % 3 == 0 { 0x1800 } else { 0 };
                assert!(c.table == format!("t{}\u{e9}", j).into_bytes() && c.name == ("n".repeat(nl) + &j.to_string()).into_bytes(), "[C09.w.names] table/name of column {} differ", j);
                assert!(c.ty == 3 && c.flags == wf, "[C09.w.flags] type/flags of column {} arrived as {}/{:#x}, declared 3/{:#x}", j, c.ty, c.flags, wf);
                assert!(c.fixed[0] == 33 && c.fixed[1] == 0 && c.fixed[9] == 0, "[C09.w.fixed] fixed fields of the column definition differ");
            }
        } else { panic!("[C09.w.grammar] not a resultset") }
        cases += 1;
    }
    for nl in [0usize, 1, 250, 251, 252, 253, 255, 256, 65535, 65536] {
        let (r, m) = one(format!("namelen:{}", nl).as_bytes());
        assert!(r.result.is_ok(), "[C09.w.run] failed: {:?}", r.result);
        let mut i = 1;
        let units = parse_response(&m, &mut i).unwrap_or_else(|e| panic!("[C09.w.names] header with {}-byte names not conformant: {}", nl, e));
        if let Resp::Rs { cols, .. } = &units[0] {
            assert!(cols[0].table == "T".repeat(nl).into_bytes() && cols[0].name == "c".repeat(nl).into_bytes(), "[C09.w.names] {}-byte table/column names arrived changed", nl);
        } else { panic!("[C09.w.grammar] not a resultset") }
        cases += 1;
    }
    // PREPARE reply
    let r = converse(hs41(b"u", 0), &[(c_prepare(b"p:258:2:3"), 0), quit()], vec![], false, None, None);
    let m = replies(&r);
    let p = &m[1].2;
    assert!(p.len() == 12 && p[0] == 0 && u32::from_le_bytes([p[1], p[2], p[3], p[4]]) == 258 && u16::from_le_bytes([p[5], p[6]]) == 3 && u16::from_le_bytes([p[7], p[8]]) == 2, "[C09.w.prepare] PREPARE reply header differs: {:?}", p);
    let defs: Vec<ColDef> = m[2..].iter().filter(|x| !is_eof(&x.2)).map(|x| parse_coldef(&x.2).expect("[C09.w.prepare] malformed definition")).collect();
    assert!(defs.len() == 5 && defs[0].name == b"p0" && defs[2].name == b"c0" && defs[2].flags == 0x0101, "[C09.w.prepare] parameter/column definitions differ");
    println!("VERIF-NATIVE w_c09_meta cases={} nontrivial={}", cases + 1, cases + 1);
}

#[test]
fn w_c10_registry() {
    let ex = |id: u32, v: &[u8]| c_execute(id, &[(253, false, Some({ let mut x = vec![v.len() as u8]; x.extend_from_slice(v); x }))], true);
    // unknown / closed / rejected ids end the connection with an error and never reach the shim
    for script in [vec![(ex(5, b"x"), 0)], vec![(c_long(5, 0, b"x"), 0)], vec![(c_prepare(b"p:5:1:0"), 0), (c_close(5), 0), (ex(5, b"x"), 0)], vec![(c_prepare(b"perr"), 0), (ex(0, b"x"), 0)]] {
        let mut cmds = script.clone();
        cmds.push(quit());
        let r = converse(hs41(b"u", 0), &cmds, vec![], false, None, None);
        assert!(r.result.is_err() && !r.panicked, "[C10.w.unknown] execution / long data for an id that is not live was accepted");
        assert!(!r.log.iter().any(|e| matches!(e, Ev::Execute(..))), "[C10.w.unknown] execution for a dead id reached the shim");
    }
    // a PREPARE whose reply the library refuses (more columns than the protocol can announce) leaves no usable id
    {
        let r = converse(hs41(b"u", 0), &[(c_prepare(b"p:7:0:65536"), 0), (ex(7, b"x"), 0), (vec![0x0e], 0), quit()], vec![], false, None, None);
        assert!(!r.panicked && !r.log.iter().any(|e| matches!(e, Ev::Execute(..))), "[C10.w.unknown] execution of an id whose PREPARE reply was refused reached the shim");
    }
    // re-preparing a live id starts afresh: no stale long data, no stale types
    let r = converse(hs41(b"u", 0), &[(c_prepare(b"p:1:1:0"), 0), (c_long(1, 0, b"STALE"), 0), (c_prepare(b"p:1:1:0"), 0), (ex(1, b"fresh"), 0), quit()], vec![], false, None, None);
    assert!(r.result.is_ok(), "[C10.w.reprepare] failed: {:?}", r.result);
    assert!(matches!(r.log.last(), Some(Ev::Execute(1, v)) if v[0].1 == "Bytes([102, 114, 101, 115, 104])"), "[C10.w.reprepare] a re-prepared id kept stale long data: {:?}", r.log.last());
    let r = converse(hs41(b"u", 0), &[(c_prepare(b"p:1:1:0"), 0), (ex(1, b"a"), 0), (c_prepare(b"p:1:1:0"), 0), (c_execute(1, &[(253, false, Some(vec![1, b'b']))], false), 0), quit()], vec![], false, None, None);
    assert!(r.panicked || r.result.is_err() || !matches!(r.log.last(), Some(Ev::Execute(1, v)) if v[0].1 == "Bytes([98])"), "[C10.w.reprepare] a re-prepared id kept the bound types of its predecessor");
    // every CLOSE reaches on_close once, no reply
    let r = converse(hs41(b"u", 0), &[(c_prepare(b"p:1:0:0"), 0), (c_close(1), 0), (c_close(1), 0), (c_close(9), 0), quit()], vec![], false, None, None);
    assert!(r.log.iter().filter(|e| matches!(e, Ev::Close(_))).count() == 3, "[C10.w.close] not every COM_STMT_CLOSE reached on_close exactly once: {:?}", r.log);
    println!("VERIF-NATIVE w_c10_registry cases=8 nontrivial=8");
}

#[test]
fn w_c11_handshake() {
    let mut cases = 0;
    // the 23 reserved bytes of a 4.1 response need not be zero (MariaDB clients put capabilities there)
    {
        let mut hs = hs41(b"maria", 0);
        for k in 0..23 { hs[9 + k] = 0x07 + k as u8; }
        let r = converse(hs, &[(vec![0x0e], 0), quit()], vec![], false, None, None);
        assert!(r.result.is_ok() && r.log.get(0) == Some(&Ev::Auth(Some(b"maria".to_vec()))), "[C11.w.user] a handshake response with non-zero reserved bytes was not authenticated: {:?} {:?}", r.result, r.log.get(0));
        cases += 1;
    }
    for user in [&b"root"[..], b"", b"\xff\xfeadmin", b"a b", b"x"] {
        for layout in 0..2 {
            let hs = if layout == 0 { hs41(user, 0) } else { hs320(user) };
            for reject in [false, true] {
                let r = converse(hs.clone(), &[(vec![0x0e], 0), quit()], vec![], reject, None, None);
                let raw = raw_packets(&r.out).expect("[C04.w.frame] not on a packet boundary");
                let g = &raw[0].1;
                assert!(raw[0].0 == 0 && g[0] == 10, "[C11.w.greeting] not a protocol-10 greeting with id 0");
                let z = g[1..].iter().position(|b| *b == 0).expect("[C11.w.greeting] server version not terminated") + 1;
                let caps_lo = u16::from_le_bytes([g[z + 14], g[z + 15]]);
                assert!(caps_lo & 0x0200 != 0 && caps_lo & 0x0800 == 0, "[C11.w.greeting] capability bits wrong: {:#x}", caps_lo);
                assert!(r.log.iter().filter(|e| matches!(e, Ev::Auth(_))).count() == 1 && r.log[0] == Ev::Auth(Some(user.to_vec())), "[C11.w.user] after_authentication saw {:?}, client sent {:?}", r.log.get(0), user);
                if reject {
                    assert!(r.result == Err("rejected".into()) && r.log.len() == 1, "[C11.w.reject] rejected login: wrong result or a command was served: {:?}", r.result);
                    assert!(matches!(parse_err(&raw[1].1), Some(Resp::Err { code: 1045, ref state, .. }) if state == b"28000") && raw[1].0 == 2 && raw.len() == 2, "[C11.w.reject] rejection must be ERR 1045/28000 with id 2");
                } else {
                    assert!(r.result.is_ok() && parse_ok(&raw[1].1).is_some() && raw[1].0 == 2, "[C11.w.accept] accepted login must get OK with id 2");
                }
                cases += 1;
            }
        }
    }
    // a client that asks for TLS (CLIENT_SSL, 0x0800) although the greeting did not offer it -- as a
    // bare SSL request or with a complete response behind it -- is refused before any callback
    for full in [true, false] {
        let mut hs = hs41(b"jon", 0x0800);
        if !full {
            hs.truncate(32);
        }
        let r = converse(hs, &[(vec![0x0e], 0), quit()], vec![], false, None, None);
        assert!(r.log.is_empty(), "[C11.w.ssl] a callback ran for a client that requested TLS without an offer: {:?}", r.log);
        assert!(r.result.is_err(), "[C11.w.ssl] TLS request without an offer was not refused");
        let raw = raw_packets(&r.out).expect("[C04.w.frame] not on a packet boundary");
        assert!(raw.len() == 1, "[C11.w.ssl] something was served after the greeting: {} packets", raw.len());
        cases += 1;
    }
    println!("VERIF-NATIVE w_c11_handshake cases={} nontrivial={}", cases, cases);
}

#[test]
fn w_c12_flush() {
    let cmds: Vec<(Vec<u8>, u8)> = vec![(vec![0x0e], 0), (c_query(b"ok:1:1"), 0), (c_query(b"rs:1:2"), 0), quit()];
    let hs = hs41(b"u", 0);
    let total = frame(&hs, 1).len() + cmds.iter().map(|c| c.0.len() + 4).sum::<usize>();
    let mut cases = 0;
    for split in 1..total {
        // two reads: [..split] and the rest; plus lock-step-like tiny chunks
        let r = converse(hs.clone(), &cmds, vec![split, total], false, None, None);
        assert!(r.result.is_ok(), "[C12.w.run] failed at split {}: {:?}", split, r.result);
        let w = r.net.0.borrow().waited_unflushed.clone();
        assert!(w.is_empty(), "[C12.w.flush] the server waited for input at read {} while {} reply byte(s) were unflushed (stream split after {} bytes)", w[0].0, w[0].1, split);
        { let n = r.net.0.borrow(); assert!(n.flushed == n.out.len(), "[C12.w.flush] run_on returned Ok while {} reply byte(s) were never flushed (pipelined commands ending in QUIT, stream split after {} bytes)", n.out.len() - n.flushed, split); }
        cases += 1;
    }
    // lock-step: every read delivers exactly one command, so the server waits for input after every reply -- also after
    // replies of 255, 256, 257 and 512 packets (an 8-bit packet counter comes back to where it started)
    for nrows in [0usize, 1, 251, 252, 253, 508] {
        let q = format!("rs:1:{}", nrows);
        let cmds: Vec<(Vec<u8>, u8)> = vec![(c_query(q.as_bytes()), 0), (vec![0x0e], 0), quit()];
        let mut chunks = vec![frame(&hs, 1).len()];
        for c in &cmds { chunks.push(c.0.len() + 4); }
        chunks.push(1);
        let r = converse(hs.clone(), &cmds, chunks, false, None, None);
        assert!(r.result.is_ok(), "[C12.w.run] lock-step conversation with a {}-row reply failed: {:?}", nrows, r.result);
        let w = r.net.0.borrow().waited_unflushed.clone();
        assert!(w.is_empty(), "[C12.w.flush] after a reply of {} packets the server waited for input at read {} while {} reply byte(s) were unflushed", nrows + 4, w[0].0, w[0].1);
        cases += 1;
    }
    println!("VERIF-NATIVE w_c12_flush cases={} nontrivial={}", cases, cases);
}

#[test]
fn w_c13_errors() {
    let mut cases = 0;
    // table: every defined code survives code -> kind -> code, and reaches the wire
    for code in 1000u16..2000 {
        let k = std::panic::catch_unwind(|| ErrorKind::from(code));
        if let Ok(k) = k {
            assert!(k as u16 == code, "[C13.w.codes] ErrorKind::from({}) as u16 == {}", code, k as u16);
            let s = k.sqlstate();
            assert!(s.iter().all(|c| c.is_ascii_digit() || c.is_ascii_uppercase()), "[C13.w.sqlstate] SQLSTATE of {} is not [0-9A-Z]{{5}}", code);
            cases += 1;
        }
    }
    assert!(cases > 800, "[C13.w.codes] fewer than 800 defined kinds");
    for (q, code, msg) in [("err:1064:", 1064u16, &b""[..]), ("err:1146:table#x", 1146, b"table#x"), ("err:1452:fk", 1452, b"fk")] {
        let (r, m) = one(q.as_bytes());
        match parse_err(&m[1].2) {
            Some(Resp::Err { code: c, state, msg: mm }) => assert!(c == code && mm == msg && state == ErrorKind::from(code).sqlstate(), "[C13.w.wire] ERR packet carries {}/{:?}/{:?}, shim reported {}/{:?}", c, state, mm, code, msg),
            _ => panic!("[C13.w.wire] no ERR packet"),
        }
    }
    let (_r, m) = one(b"errraw");
    assert!(matches!(parse_err(&m[1].2), Some(Resp::Err { code: 1003, msg, .. }) if msg == vec![0x23, 0x00, 0xff, 0x41]), "[C13.w.msg] message bytes altered");
    for n in [MAXP - 10, MAXP - 9, MAXP - 8, MAXP + 5] {
        let (r, m) = one(format!("errbig:{}", n).as_bytes());
        assert!(r.result.is_ok(), "[C13.w.run] error with a {}-byte message failed: {:?}", n, r.result);
        match parse_err(&m[1].2) {
            Some(Resp::Err { code: 1002, msg, .. }) => assert!(msg.len() == n && msg.iter().enumerate().all(|(k, b)| *b == b'a' + (k % 26) as u8), "[C13.w.msg] a {}-byte error message arrived with {} bytes", n, msg.len()),
            _ => panic!("[C13.w.wire] no ERR packet for a {}-byte message", n),
        }
    }
    // an error after the cells of the last row were written but the row not ended, text and binary protocol
    {
        let (r, m) = one(b"colerr");
        assert!(r.result.is_ok(), "[C13.w.rows] error after an un-ended row (text) failed: {:?}", r.result);
        let mut i = 1;
        let u = parse_response(&m, &mut i).unwrap_or_else(|e| panic!("[C13.w.rows] response with an error after an un-ended text row is not conformant: {}", e));
        assert!(matches!(u.last(), Some(Resp::RsErr { rows, code: 1002, msg, .. }) if msg == b"mid" && rows.len() == 2), "[C13.w.rows] error after an un-ended text row did not arrive as two rows and an ERR packet: {:?}", u.last());
        let r = converse(hs41(b"u", 0), &[(c_query(b"setexec=colerr"), 0), (c_prepare(b"p:1:0:0"), 0), (c_execute(1, &[], true), 0), (vec![0x0e], 0), quit()], vec![], false, None, None);
        assert!(r.result.is_ok(), "[C13.w.rows] error after an un-ended row (binary) failed: {:?}", r.result);
        let m = replies(&r);
        let mut i = 3;
        let u = parse_response(&m, &mut i).unwrap_or_else(|e| panic!("[C13.w.rows] response with an error after an un-ended binary row is not conformant: {}", e));
        match u.last() {
            Some(Resp::RsErr { rows, code: 1002, msg, .. }) if msg == b"mid" && rows.len() == 2 => {
                for row in rows { assert!(bin_row(row, &[(3, false)]).is_ok(), "[C13.w.rows] a binary row before the error is malformed: {:?}", row); }
            }
            other => panic!("[C13.w.rows] error after an un-ended binary row did not arrive as two rows and an ERR packet: {:?}", other),
        }
        assert!(i + 1 == m.len() && parse_ok(&m[i].2).is_some(), "[C13.w.rows] the reply after the error is shifted");
        cases += 2;
    }
    let (_r, m) = one(b"USE denied");
    assert!(matches!(parse_err(&m[1].2), Some(Resp::Err { code: 1044, msg, .. }) if msg == b"nope"), "[C13.w.init] init error not delivered");
    let r = converse(hs41(b"u", 0), &[(c_prepare(b"perr"), 0), quit()], vec![], false, None, None);
    assert!(matches!(parse_err(&replies(&r)[1].2), Some(Resp::Err { code: 1002, .. })), "[C13.w.prepare] prepare error not delivered");
    println!("VERIF-NATIVE w_c13_errors cases={} nontrivial={}", cases + 6, cases + 6);
}

#[test]
fn w_c14_counts() {
    let vals = [0u64, 1, 250, 251, 252, 65535, 65536, 16777215, 16777216, 1 << 32, u64::MAX - 1, u64::MAX];
    let mut cases = 0;
    for a in vals { for b in vals {
        let (_r, m) = one(format!("ok:{}:{}", a, b).as_bytes());
        assert!(parse_ok(&m[1].2) == Some(Resp::Ok { rows: a, id: b, status: 0 }), "[C14.w.ok] completion ({}, {}) arrived as {:?}", a, b, parse_ok(&m[1].2));
        cases += 1;
    } }
    for k in [0u64, 1, 2, 3, 300] {
        let (_r, m) = one(format!("zero:{}", k).as_bytes());
        assert!(parse_ok(&m[1].2) == Some(Resp::Ok { rows: k, id: 0, status: 0 }), "[C14.w.zero] {} rows of a zero-column resultset reported as {:?}", k, parse_ok(&m[1].2));
        cases += 1;
    }
    // chained: every completion and every zero-column resultset of a multi-result response arrives, in order
    for bin in [false, true] {
        let m = if bin {
            let r = converse(hs41(b"u", 0), &[(c_query(b"setexec=chainzero"), 0), (c_prepare(b"p:1:0:0"), 0), (c_execute(1, &[], true), 0), quit()], vec![], false, None, None);
            assert!(r.result.is_ok(), "[C14.w.run] chained completions failed: {:?}", r.result);
            replies(&r)[3..].to_vec()
        } else {
            let (r, m) = one(b"chainzero");
            assert!(r.result.is_ok(), "[C14.w.run] chained completions failed: {:?}", r.result);
            m[1..m.len() - 1].to_vec()
        };
        let got: Vec<Option<Resp>> = m.iter().map(|x| parse_ok(&x.2)).collect();
        let want: Vec<(u64, u64, bool)> = vec![(300, 70000, true), (2, 0, true), (1, 0, true), (7, 251, false)];
        assert!(got.len() == want.len(), "[C14.w.chain] chained completions: {} OK packets arrived, {} were reported ({:?})", got.len(), want.len(), got);
        for (g, w) in got.iter().zip(want.iter()) {
            assert!(matches!(g, Some(Resp::Ok { rows, id, status }) if *rows == w.0 && *id == w.1 && (status & 8 != 0) == w.2), "[C14.w.chain] chained completion arrived as {:?}, reported (rows {}, id {}, more {})", g, w.0, w.1, w.2);
        }
        cases += 1;
    }
    println!("VERIF-NATIVE w_c14_counts cases={} nontrivial={}", cases, cases);
}

#[test]
fn w_c15_ints() {
    // integers of every column type and signedness, decoded with the ADVERTISED column type and flags
    let r = converse(hs41(b"u", 0), &[(c_query(b"setexec=ints"), 0), (c_prepare(b"p:1:0:0"), 0), (c_execute(1, &[], true), 0), quit()], vec![], false, None, None);
    assert!(r.result.is_ok(), "[C15.w.run] integer resultset failed: {:?}", r.result);
    let m = replies(&r);
    let mut i = 3;
    let units = parse_response(&m, &mut i).expect("[C15.w.grammar] response not conformant");
    let mut cases = 0;
    if let Resp::Rs { cols, rows, .. } = &units[0] {
        assert!(cols.len() == 12 && rows.len() == 5, "[C15.w.grammar] expected 12 columns and 5 rows, got {} and {}", cols.len(), rows.len());
        let tys: Vec<(u8, bool)> = cols.iter().map(|c| (c.ty, c.flags & 32 != 0)).collect();
        for (j, (ty, uns)) in tys.iter().enumerate() {
            let want_ty = [1u8, 2, 13, 9, 3, 8][j / 2];
            assert!(*ty == want_ty && *uns == (j % 2 == 1), "[C15.w.meta] column {} advertised as type {} unsigned={} but declared type {} unsigned={}", j, ty, uns, want_ty, j % 2 == 1);
        }
        for (class, row) in rows.iter().enumerate() {
            let vals = bin_row(row, &tys).unwrap_or_else(|e| panic!("[C15.w.row] integer row {} malformed: {}", class, e));
            for (j, v) in vals.iter().enumerate() {
                let bits: u32 = match tys[j].0 { 1 => 8, 2 | 13 => 16, 8 => 64, _ => 32 };
                let want = if class < 4 {
                    if j % 2 == 1 {
                        let max = if bits == 64 { u64::MAX } else { (1u64 << bits) - 1 };
                        BinVal::U([0u64, 1, max - 1, max][class])
                    } else {
                        let min = if bits == 64 { i64::MIN } else { -(1i64 << (bits - 1)) };
                        BinVal::I([min, -1, 1, -(min + 1)][class])
                    }
                } else {
                    [BinVal::I(-128), BinVal::U(255), BinVal::I(-32768), BinVal::U(65535), BinVal::I(-1), BinVal::U(2155), BinVal::I(-2147483648), BinVal::U(4294967295), BinVal::I(-1), BinVal::U(1), BinVal::I(i64::MIN), BinVal::U(u64::MAX)][j].clone()
                };
                assert!(v == &want, "[C15.w.exact] row {} column {} (type {}, unsigned {}): client decodes {:?}, written {:?}", class, j, tys[j].0, tys[j].1, v, want);
                cases += 1;
            }
        }
    } else { panic!("[C15.w.grammar] not a resultset") }
    println!("VERIF-NATIVE w_c15_ints cases={} nontrivial={}", cases, cases);
}

#[test]
fn w_c16_c17_stmt() {
    let s = |v: &[u8]| { let mut x = vec![v.len() as u8]; x.extend_from_slice(v); x };
    // types persist per statement; a rebind replaces them; another statement is unaffected
    let cmds = vec![
        (c_prepare(b"p:1:2:0"), 0), (c_prepare(b"p:2:1:0"), 0),
        (c_execute(1, &[(8, false, Some(7u64.to_le_bytes().to_vec())), (253, false, Some(s(b"ab")))], true), 0),
        (c_execute(2, &[(1, true, Some(vec![200]))], true), 0),
        (c_execute(1, &[(8, false, Some(0x0102030405060708u64.to_le_bytes().to_vec())), (253, false, Some(s(b"cd")))], false), 0),
        (c_execute(1, &[(253, false, Some(s(b"zz"))), (3, true, Some(9u32.to_le_bytes().to_vec()))], true), 0),
        (c_execute(1, &[(253, false, Some(s(b"yy"))), (3, true, Some(10u32.to_le_bytes().to_vec()))], false), 0),
        (c_execute(2, &[(1, true, Some(vec![201]))], false), 0),
        (c_execute(2, &[(1, false, Some(vec![200]))], true), 0),
        (c_execute(2, &[(1, false, Some(vec![255]))], false), 0),
        (c_execute(2, &[(1, true, Some(vec![255]))], true), 0),
        quit(),
    ];
    let r = converse(hs41(b"u", 0), &cmds, vec![], false, None, None);
    assert!(r.result.is_ok(), "[C16.w.run] failed: {:?}", r.result);
    let ex: Vec<&Ev> = r.log.iter().filter(|e| matches!(e, Ev::Execute(..))).collect();
    let want: Vec<Vec<(u8, &str)>> = vec![vec![(8, "Int(7)"), (253, "Bytes([97, 98])")], vec![(1, "UInt(200)")], vec![(8, "Int(72623859790382856)"), (253, "Bytes([99, 100])")], vec![(253, "Bytes([122, 122])"), (3, "UInt(9)")], vec![(253, "Bytes([121, 121])"), (3, "UInt(10)")], vec![(1, "UInt(201)")], vec![(1, "Int(-56)")], vec![(1, "Int(-1)")], vec![(1, "UInt(255)")]];
    assert!(ex.len() == want.len(), "[C16.w.run] {} executions reached the shim, {} were sent", ex.len(), want.len());
    for (k, (e, w)) in ex.iter().zip(want.iter()).enumerate() {
        if let Ev::Execute(_, seen) = e { assert!(seen.len() == w.len() && seen.iter().zip(w.iter()).all(|(a, b)| a.0 == b.0 && a.1 == b.1), "[C16.w.types] execution {} decoded as {:?}, expected {:?}", k, seen, w); }
    }
    // long data: concatenated in order, delivered once, per statement and parameter, inline bytes untouched
    let cmds = vec![
        (c_prepare(b"p:1:2:0"), 0), (c_prepare(b"p:2:1:0"), 0),
        (c_long(1, 1, b"he"), 0), (c_long(2, 0, b"other"), 0), (c_long(1, 1, b""), 0), (c_long(1, 1, b"llo"), 0),
        (c_execute(1, &[(253, false, Some(s(b"in0"))), (253, false, Some(vec![]))], true), 0),
        (c_execute(1, &[(253, false, Some(s(b"in0"))), (253, false, Some(s(b"in1")))], true), 0),
        (c_execute(2, &[(253, false, Some(vec![]))], true), 0),
        (c_execute(2, &[(253, false, Some(s(b"x")))], true), 0),
        (c_long(1, 0, b""), 0),
        (c_execute(1, &[(253, false, Some(vec![])), (253, false, Some(s(b"abc")))], true), 0),
        quit(),
    ];
    let r = converse(hs41(b"u", 0), &cmds, vec![], false, None, None);
    assert!(r.result.is_ok(), "[C17.w.run] failed: {:?}", r.result);
    let ex: Vec<&Ev> = r.log.iter().filter(|e| matches!(e, Ev::Execute(..))).collect();
    let want: Vec<Vec<&str>> = vec![vec!["Bytes([105, 110, 48])", "Bytes([104, 101, 108, 108, 111])"], vec!["Bytes([105, 110, 48])", "Bytes([105, 110, 49])"], vec!["Bytes([111, 116, 104, 101, 114])"], vec!["Bytes([120])"], vec!["Bytes([])", "Bytes([97, 98, 99])"]];
    assert!(ex.len() == want.len(), "[C17.w.run] {} executions reached the shim, {} were sent", ex.len(), want.len());
    for (k, (e, w)) in ex.iter().zip(want.iter()).enumerate() {
        if let Ev::Execute(_, seen) = e { assert!(seen.iter().map(|x| x.1.as_str()).collect::<Vec<_>>() == *w, "[C17.w.longdata] execution {} saw {:?}, expected {:?}", k, seen, w); }
    }
    // interplay: an execution that consumed long data leaves the statement's bound types alone (a later
    // execution that reuses them decodes as before), and a statement's types survive long data sent to
    // ANOTHER statement
    let cmds = vec![
        (c_prepare(b"p:1:2:0"), 0), (c_prepare(b"p:2:1:0"), 0),
        (c_execute(1, &[(8, true, Some(7u64.to_le_bytes().to_vec())), (253, false, Some(s(b"ab")))], true), 0),
        (c_execute(2, &[(2, true, Some(vec![0xff, 0xff]))], true), 0),
        (c_long(1, 1, b"LONG"), 0),
        (c_execute(1, &[(8, true, Some(u64::MAX.to_le_bytes().to_vec())), (253, false, Some(vec![]))], false), 0),
        (c_execute(1, &[(8, true, Some(9u64.to_le_bytes().to_vec())), (253, false, Some(s(b"cd")))], false), 0),
        (c_execute(2, &[(2, true, Some(vec![0xfe, 0xff]))], false), 0),
        quit(),
    ];
    let r = converse(hs41(b"u", 0), &cmds, vec![], false, None, None);
    assert!(r.result.is_ok(), "[C16.w.run] executions around long data failed: {:?}", r.result);
    let ex: Vec<&Ev> = r.log.iter().filter(|e| matches!(e, Ev::Execute(..))).collect();
    let want: Vec<Vec<(u8, &str)>> = vec![vec![(8, "UInt(7)"), (253, "Bytes([97, 98])")], vec![(2, "UInt(65535)")], vec![(8, "UInt(18446744073709551615)"), (253, "Bytes([76, 79, 78, 71])")], vec![(8, "UInt(9)"), (253, "Bytes([99, 100])")], vec![(2, "UInt(65534)")]];
    assert!(ex.len() == want.len(), "[C16.w.run] {} executions reached the shim, {} were sent", ex.len(), want.len());
    for (k, (e, w)) in ex.iter().zip(want.iter()).enumerate() {
        if let Ev::Execute(_, seen) = e { assert!(seen.len() == w.len() && seen.iter().zip(w.iter()).all(|(a, b)| a.0 == b.0 && a.1 == b.1), "[C16.w.types] execution {} (around long data) decoded as {:?}, expected {:?}", k, seen, w); }
    }
    // long data for parameter indexes beyond the first byte of the NULL bitmap (10 parameters)
    let inl = |k: usize| -> (u8, bool, Option<Vec<u8>>) { (253, false, Some(s(format!("in{}", k).as_bytes()))) };
    let mut ps: Vec<(u8, bool, Option<Vec<u8>>)> = (0..10).map(inl).collect();
    ps[1] = (253, false, Some(vec![]));
    ps[9] = (253, false, Some(vec![]));
    let cmds = vec![(c_prepare(b"p:1:10:0"), 0), (c_long(1, 9, b"NINE"), 0), (c_long(1, 1, b"ONE"), 0), (c_execute(1, &ps, true), 0), (c_execute(1, &(0..10).map(inl).collect::<Vec<_>>(), true), 0), quit()];
    let r = converse(hs41(b"u", 0), &cmds, vec![], false, None, None);
    assert!(r.result.is_ok(), "[C17.w.run] 10-parameter statement with long data failed: {:?}", r.result);
    let ex: Vec<&Ev> = r.log.iter().filter(|e| matches!(e, Ev::Execute(..))).collect();
    assert!(ex.len() == 2, "[C17.w.run] {} executions reached the shim, 2 were sent", ex.len());
    for (k, e) in ex.iter().enumerate() {
        if let Ev::Execute(_, seen) = e {
            let want: Vec<String> = (0..10).map(|j| { let b = if k == 0 && j == 9 { b"NINE".to_vec() } else if k == 0 && j == 1 { b"ONE".to_vec() } else { format!("in{}", j).into_bytes() }; format!("Bytes({:?})", b) }).collect();
            assert!(seen.iter().map(|x| x.1.clone()).collect::<Vec<_>>() == want, "[C17.w.longdata] execution {} of a 10-parameter statement saw {:?}, expected {:?}", k, seen, want);
        }
    }
    // long data for a parameter that an EARLIER execution bound as something else (NULL, an integer): the types that go
    // with the long data only arrive with the next execution
    for first in [(6u8, None), (3u8, Some(5u32.to_le_bytes().to_vec())), (253u8, Some(s(b"old")))] {
        let cmds = vec![(c_prepare(b"p:1:2:0"), 0),
            (c_execute(1, &[(first.0, false, first.1.clone()), (253, false, Some(s(b"x")))], true), 0),
            (c_long(1, 0, b"Hello, "), 0), (c_long(1, 0, b"world"), 0),
            (c_execute(1, &[(252, false, Some(vec![])), (253, false, Some(s(b"tail")))], true), 0), quit()];
        let r = converse(hs41(b"u", 0), &cmds, vec![], false, None, None);
        assert!(r.result.is_ok() && !r.panicked, "[C17.w.run] long data after a type-{} binding failed: {:?}", first.0, r.result);
        let ex: Vec<&Ev> = r.log.iter().filter(|e| matches!(e, Ev::Execute(..))).collect();
        assert!(ex.len() == 2, "[C17.w.run] {} executions reached the shim", ex.len());
        if let Ev::Execute(_, seen) = ex[1] {
            assert!(seen.len() == 2 && seen[0].1 == format!("Bytes({:?})", b"Hello, world".to_vec()) && seen[1].1 == format!("Bytes({:?})", b"tail".to_vec()), "[C17.w.longdata] long data sent after parameter 0 had been bound as type {}: the execution saw {:?}", first.0, seen);
        }
    }
    // a rebind replaces the earlier types COMPLETELY, whatever the new type is: every pair (first type, second type)
    // out of LONG, NULL, VAR_STRING, TINY -- then a type-less execution uses the second binding
    {
        let tys: [(u8, Option<Vec<u8>>, &str); 4] = [(3, Some(5u32.to_le_bytes().to_vec()), "Int(5)"), (6, None, "NULL"), (253, Some(s(b"q")), "Bytes([113])"), (1, Some(vec![7]), "Int(7)")];
        for a in tys.iter() {
            for b in tys.iter() {
                let cmds = vec![(c_prepare(b"p:1:1:0"), 0),
                    (c_execute(1, &[(a.0, false, a.1.clone())], true), 0),
                    (c_execute(1, &[(b.0, false, b.1.clone())], true), 0),
                    (c_execute(1, &[(b.0, false, b.1.clone())], false), 0), quit()];
                let r = converse(hs41(b"u", 0), &cmds, vec![], false, None, None);
                assert!(r.result.is_ok() && !r.panicked, "[C16.w.run] rebind {} -> {} failed: {:?}", a.0, b.0, r.result);
                let ex: Vec<&Ev> = r.log.iter().filter(|e| matches!(e, Ev::Execute(..))).collect();
                assert!(ex.len() == 3, "[C16.w.run] rebind {} -> {}: {} executions reached the shim", a.0, b.0, ex.len());
                for (k, want) in [(0usize, a), (1, b), (2, b)] {
                    if let Ev::Execute(_, seen) = ex[k] {
                        assert!(seen.len() == 1 && seen[0].0 == want.0 && seen[0].1 == want.2, "[C16.w.rebind] parameter first bound as type {} then as type {}: execution {} decoded as {:?}, expected ({}, {})", a.0, b.0, k, seen, want.0, want.2);
                    }
                }
            }
        }
    }
    println!("VERIF-NATIVE w_c16_c17_stmt cases=36 nontrivial=36");
}

#[test]
fn w_c19_faults() {
    let cmds: Vec<(Vec<u8>, u8)> = vec![(vec![0x0e], 0), (c_query(b"rs:2:3"), 0), (c_prepare(b"p:1:1:1"), 0), (c_execute(1, &[(253, false, Some(vec![1, b'x']))], true), 0), (c_query(b"droprw"), 0), (c_query(b"dropqrw"), 0)];
    let hs = hs41(b"u", 0);
    let mut input_len = frame(&hs, 1).len();
    let mut boundaries = vec![input_len];
    for c in &cmds { input_len += c.0.len() + 4; boundaries.push(input_len); }
    let mut cases = 0;
    // end of stream after k bytes: Ok exactly at a command boundary after the handshake
    let full = converse(hs.clone(), &cmds, vec![], false, None, None);
    for cut in 0..=input_len {
        let r = converse(hs.clone(), &cmds, vec![], false, None, Some(cut));
        assert!(!r.panicked, "[C19.w.eof] panic when the stream ends after {} bytes", cut);
        assert!(r.log.len() <= full.log.len() && r.log[..] == full.log[..r.log.len()], "[C19.w.nocallback] after the stream ended inside the conversation ({} bytes) the shim was called back: {:?}", cut, r.log.last());
        let at_boundary = boundaries.contains(&cut);
        assert!(r.result.is_ok() == at_boundary, "[C19.w.eof] stream ending after {} bytes ({}a command boundary) gave {:?}", cut, if at_boundary { "" } else { "not " }, r.result);
        cases += 1;
    }
    // a connection that ends with Ok has flushed everything it wrote (otherwise a failing flush could never be reported):
    // the same commands pipelined in ONE read and closed by COM_QUIT, and closed by the end of the stream
    for closing in [vec![quit()], vec![]] {
        let mut pc = cmds.clone();
        pc.extend(closing.clone());
        let r = converse(hs.clone(), &pc, vec![], false, None, None);
        let n = r.net.0.borrow();
        assert!(r.result.is_ok() && n.flushed == n.out.len(), "[C19.w.flushall] run_on returned {:?} with {} reply byte(s) never handed to flush (pipelined conversation{})", r.result, n.out.len() - n.flushed, if closing.is_empty() { "" } else { " ending in QUIT" });
    }
    // a transport error at operation k (one-off and persistent): Err, and no callback afterwards
    let clean = converse(hs.clone(), &cmds, vec![], false, None, None);
    let nops = clean.net.0.borrow().ops;
    for k in 0..nops {
        for pers in [false, true] {
            for kind in [io::ErrorKind::BrokenPipe, io::ErrorKind::UnexpectedEof, io::ErrorKind::ConnectionReset, io::ErrorKind::InvalidData, io::ErrorKind::TimedOut, io::ErrorKind::Interrupted, io::ErrorKind::WouldBlock] {
                let r = converse_k(hs.clone(), &cmds, vec![], false, Some((k, pers)), None, kind);
                // no shim callback is started after the failure: what the shim saw is a prefix of what it sees in the
                // fault-free conversation (a callback that cleans up after the connection has failed shows up as an extra event)
                assert!(r.log.len() <= clean.log.len() && r.log[..] == clean.log[..r.log.len()], "[C19.w.nocallback] after a transport error ({:?}) at operation {} the shim was called back: {:?}", kind, k, r.log.last());
                // the two documented Drop panics (known findings D10) are not re-reported here
                if r.panicked { continue; }
                if r.net.0.borrow().faults == 0 { continue; }   // (an Interrupted aimed at a write is not injected)
                assert!(r.result.is_err(), "[C19.w.fault] transport error ({:?}) at operation {} was masked (run_on returned Ok)", kind, k);
                cases += 1;
            }
        }
    }
    // responses that involve no RowWriter (completions, errors, the library's own replies, PREPARE): the result writer is
    // consumed by the call that writes the terminator, so no destructor is left owing I/O -- under every one-off or
    // persistent fault such a conversation must end in Err, never in a panic. (A RowWriter dropped by a `?` after a failed
    // write does retry in its destructor: known finding D10, exercised by the sweep above -- that includes the library's
    // own reply to `SELECT @@...`, which goes through a RowWriter.)
    let fcmds: Vec<(Vec<u8>, u8)> = vec![(vec![0x0e], 0), (c_query(b"ok:1:2"), 0), (c_query(b"okerr"), 0), (c_query(b"err:1064:x"), 0),
        (c_prepare(b"p:1:1:1"), 0), (c_execute(1, &[(253, false, Some(vec![1, b'x']))], true), 0), (cmd(0x04, b"t"), 0), (c_query(b"USE db"), 0)];
    let clean = converse(hs.clone(), &fcmds, vec![], false, None, None);
    assert!(clean.result.is_ok(), "[C19.w.run] conversation without row writers failed: {:?}", clean.result);
    let nops = clean.net.0.borrow().ops;
    for k in 0..nops {
        for pers in [false, true] {
            let r = converse_k(hs.clone(), &fcmds, vec![], false, Some((k, pers)), None, io::ErrorKind::BrokenPipe);
            assert!(!r.panicked, "[C19.w.nopanic] {} transport error at operation {} made run_on PANIC although no row writer was involved", if pers { "persistent" } else { "one-off" }, k);
            assert!(r.result.is_err(), "[C19.w.fault] {} transport error at operation {} was masked (run_on returned Ok)", if pers { "persistent" } else { "one-off" }, k);
            cases += 1;
        }
    }
    // the same for a response that spans several packets (a row of 16 MiB and more, text and binary):
    // the write of a maximal packet happens inside PacketConn::write, not at end_packet
    let bigcmds: Vec<(Vec<u8>, u8)> = vec![(c_query(b"setexec=big:16777300"), 0), (c_prepare(b"p:1:0:0"), 0), (c_execute(1, &[], true), 0), (c_query(b"big:33554430"), 0), (vec![0x0e], 0)];
    let clean = converse(hs.clone(), &bigcmds, vec![], false, None, None);
    assert!(clean.result.is_ok(), "[C19.w.run] conversation with multi-packet responses failed: {:?}", clean.result);
    let nops = clean.net.0.borrow().ops;
    for k in 0..nops {
        for pers in [false, true] {
            let r = converse_k(hs.clone(), &bigcmds, vec![], false, Some((k, pers)), None, io::ErrorKind::BrokenPipe);
            if r.panicked { continue; }
            assert!(r.result.is_err(), "[C19.w.fault] {} transport error at operation {} of a conversation with multi-packet responses was masked (run_on returned Ok)", if pers { "persistent" } else { "one-off" }, k);
            cases += 1;
        }
    }
    // the trait's DEFAULT methods (database switch answered by the library's default on_init): same rule
    let dcmds: Vec<(Vec<u8>, u8)> = vec![(c_query(b"USE db1"), 0), (c_query(b"SELECT 1"), 0), (cmd(0x02, b"db2"), 0), (c_query(b"SELECT 2"), 0), (vec![0x0e], 0)];
    let (res, _p, dlog, nops, dout) = converse_default(&dcmds, None);
    assert!(res.is_ok() && dlog.len() == 2, "[C19.w.run] conversation with the all-defaults shim failed: {:?} {:?}", res, dlog);
    let dm = messages(&raw_packets(&dout).expect("[C04.w.frame] not on a packet boundary")).expect("[C04.w.frame] bad framing");
    assert!(dm.len() == 7 && dm[2..].iter().all(|x| parse_ok(&x.2).is_some()), "[C03.w.on_init] the default database switch must be answered with OK ({} messages)", dm.len());
    for k in 0..nops {
        for pers in [false, true] {
            let (res, panicked, l2, _n, _o) = converse_default(&dcmds, Some((k, pers)));
            if panicked { continue; }
            assert!(res.is_err(), "[C19.w.fault] {} transport error at operation {} (all-defaults shim) was masked: run_on returned Ok after callbacks {:?}", if pers { "persistent" } else { "one-off" }, k, l2);
            cases += 1;
        }
    }
    // a shim error is returned unchanged
    let r = converse(hs.clone(), &[(c_query(b"shimerr"), 0), (vec![0x0e], 0)], vec![], false, None, None);
    assert!(r.result == Err("shim says no".into()) && r.log.len() == 2, "[C19.w.shim] shim error not returned unchanged or a later command was served");
    println!("VERIF-NATIVE w_c19_faults cases={} nontrivial={}", cases + 1, cases + 1);
}

#[test]
fn w_c20_malformed() {
    let mut cases = 0;
    let mut inputs: Vec<Vec<u8>> = vec![];
    for q in [&b"USE `"[..], b"use `;", b"USE ``", b"USE  ` ", b"USE ;", b"USE ", b"use  ", b"USE `a", b"USE a`", b"USE `a`;;", b"USE \xff`", b"SELECT @@", b"select @@`", b"USE `\xc3\xa9`"] {
        inputs.push(c_query(q));
    }
    for b in 0u16..256 { inputs.push(vec![b as u8]); inputs.push(vec![b as u8, 1, 2]); }
    for t in [vec![], vec![0x17, 1, 0, 0, 0], vec![0x17, 1, 0, 0, 0, 0, 1, 0, 0], vec![0x18, 1, 0, 0], vec![0x19, 1], vec![0x16], vec![0x03], vec![0x02], vec![0x04]] { inputs.push(t); }
    for inp in &inputs {
        for s in [0u8, 255] {
            let r = converse(hs41(b"u", 0), &[(inp.clone(), s), (vec![0x0e], 0), quit()], vec![], false, None, None);
            assert!(!r.panicked, "[C20.w.nopanic] client payload {:?} (request id {}) made run_on panic", &inp[..inp.len().min(16)], s);
            if r.result.is_ok() { let _ = replies(&r); }
            cases += 1;
        }
    }
    // malformed handshakes
    for hs in [vec![], vec![0x00], vec![0x00, 0x02], vec![0x00, 0x02, 0, 0, 0, 0, 0, 0, 0x21], hs41(b"u", 0)[..33].to_vec(), vec![0x05, 0x00, 0, 0, 1, b'u']] {
        let r = converse(hs.clone(), &[(vec![0x0e], 0)], vec![], false, None, None);
        assert!(!r.panicked, "[C20.w.nopanic] handshake payload {:?} made run_on panic", hs);
        cases += 1;
    }
    // error PATHS build messages from client bytes: long garbage in which multi-byte characters and invalid bytes sit
    // at every offset around the lengths at which messages are commonly cut (handshake without a terminated user
    // name, 4.1 and 3.20; unknown command bytes and invalid UTF-8 text with such tails)
    let fills: [&[u8]; 4] = [b"a", "\u{e9}".as_bytes(), b"\xff", "\u{1F600}".as_bytes()];
    for fill in fills.iter() {
        for pad in 0..4usize {
            for total in [40usize, 64, 65, 66, 100, 130, 260, 1030] {
                let mut tail: Vec<u8> = vec![b'x'; pad];
                while tail.len() < total { tail.extend_from_slice(fill); }
                let mut h41 = hs41(b"", 0);
                h41.truncate(32);
                h41.extend_from_slice(&tail);
                let mut h320 = vec![0x05, 0x00, 0x00, 0x00, 0x01];
                h320.extend_from_slice(&tail);
                for hs in [h41, h320] {
                    let r = converse(hs.clone(), &[(vec![0x0e], 0)], vec![], false, None, None);
                    assert!(!r.panicked, "[C20.w.nopanic] a handshake response with an unterminated {}-byte user name (fill {:?}, offset {}) made run_on panic", total, fill, pad);
                    assert!(r.result.is_err() && r.log.is_empty(), "[C20.w.handshake] a handshake response without a terminated user name was accepted");
                    cases += 1;
                }
                for first in [0x03u8, 0x16, 0x02, 0x55, 0x17, 0x18] {
                    let mut c = vec![first];
                    c.extend_from_slice(&tail);
                    let r = converse(hs41(b"u", 0), &[(c, 0), (vec![0x0e], 0), quit()], vec![], false, None, None);
                    assert!(!r.panicked, "[C20.w.nopanic] command {:#x} followed by {} bytes of garbage (fill {:?}, offset {}) made run_on panic", first, total, fill, pad);
                    cases += 1;
                }
            }
        }
    }
    // out-of-order fragment ids and an empty packet stream
    let mut input = frame(&hs41(b"u", 0), 1);
    input.extend_from_slice(&[0xff, 0xff, 0xff, 7]);
    input.extend(std::iter::repeat(b'x').take(MAXP));
    input.extend_from_slice(&[1, 0, 0, 9, b'y']);
    let net = Shared::new(input, vec![]);
    let shim = TShim { log: Rc::new(RefCell::new(vec![])), reject: false, notes: Rc::new(RefCell::new(vec![])) };
    let n2 = net.clone();
    let r = std::panic::catch_unwind(std::panic::AssertUnwindSafe(move || MysqlIntermediary::run_on(shim, n2)));
    assert!(matches!(r, Ok(Err(_))), "[C20.w.order] out-of-order fragment ids must end the connection with an error, not a panic or Ok");
    println!("VERIF-NATIVE w_c20_malformed cases={} nontrivial={}", cases + 1, cases + 1);
}
