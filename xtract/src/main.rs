//! xtract: mechanical extraction of real function text from a snapshot of /repo into a single-file
//! Verus unit (DESIGN.md section 3.3).
//!
//! usage: xtract <snapshot-dir> <contracts/unit.vrs> <out.rs> <out.manifest.json>
//!
//! The unit file is Verus prelude text plus `//@` directives. For every `//@ fn` / `//@ struct`
//! directive the item's *source text* is copied by byte range from the snapshot and only the rules of
//! the rule table are applied, each located through the syn AST and logged with before/after text.
//! Every rewritten region and every spliced contract region is bracketed by `/*[n*/ ... /*n]*/`
//! markers so that the driver can invert the extraction and compare with the original text.
use proc_macro2::{LineColumn, Span};
use serde_json::{json, Value};
use std::collections::{BTreeMap, HashMap};
use std::fmt::Write as _;
use syn::spanned::Spanned;
use syn::visit::{self, Visit};

macro_rules! bail {
    ($($a:tt)*) => {{ eprintln!("xtract: {}", format!($($a)*)); std::process::exit(3) }};
}

// ---------------------------------------------------------------------------------------------- source files

struct Src {
    rel: String,
    text: String,
    line_starts: Vec<usize>,
    file: syn::File,
    /// rule R10: `fn` items found in the argument-less arm `() => { ... }` of the file's
    /// `macro_rules!` definitions (macro name, item); spans point into the file text
    macro_fns: Vec<(String, syn::ImplItemFn)>,
}

impl Src {
    fn load(root: &str, rel: &str) -> Src {
        let p = format!("{}/{}", root, rel);
        let text = match std::fs::read_to_string(&p) {
            Ok(t) => t,
            Err(e) => bail!("lost anchor: cannot read {}: {}", p, e),
        };
        let file = match syn::parse_file(&text) {
            Ok(f) => f,
            Err(e) => bail!("cannot parse {}: {}", p, e),
        };
        let mut line_starts = vec![0usize];
        for (i, b) in text.bytes().enumerate() {
            if b == b'\n' {
                line_starts.push(i + 1);
            }
        }
        let mut macro_fns = vec![];
        collect_macro_fns(&file.items, &mut macro_fns);
        Src { rel: rel.to_string(), text, line_starts, file, macro_fns }
    }
    fn off(&self, lc: LineColumn) -> usize {
        let ls = self.line_starts[lc.line - 1];
        let line = &self.text[ls..];
        let mut o = ls;
        for (n, (i, _)) in line.char_indices().enumerate() {
            if n == lc.column {
                o = ls + i;
                return o;
            }
        }
        // column at end of text
        o += line.len().min(
            line.char_indices().nth(lc.column).map(|(i, _)| i).unwrap_or(line.find('\n').unwrap_or(line.len())),
        );
        o
    }
    fn range(&self, s: Span) -> (usize, usize) {
        (self.off(s.start()), self.off(s.end()))
    }
    fn line_of(&self, off: usize) -> usize {
        match self.line_starts.binary_search(&off) {
            Ok(i) => i + 1,
            Err(i) => i,
        }
    }
    fn slice(&self, r: (usize, usize)) -> &str {
        &self.text[r.0..r.1]
    }
}

/// R10: a `macro_rules! name { () => { fn ... } }` arm without parameters expands to its body verbatim
/// wherever `name!();` is written; the `fn` items of such arms can be extracted like methods.
fn collect_macro_fns(items: &[syn::Item], out: &mut Vec<(String, syn::ImplItemFn)>) {
    use proc_macro2::{Delimiter, TokenTree};
    use syn::parse::Parser;
    for it in items {
        match it {
            syn::Item::Macro(m) if m.mac.path.is_ident("macro_rules") => {
                let name = match &m.ident {
                    Some(i) => i.to_string(),
                    None => continue,
                };
                let toks: Vec<TokenTree> = m.mac.tokens.clone().into_iter().collect();
                let mut k = 0;
                while k + 3 < toks.len() + 1 && k + 3 <= toks.len() {
                    // ( ) = > { body }
                    let is_arm = matches!(&toks[k], TokenTree::Group(g) if g.delimiter() == Delimiter::Parenthesis && g.stream().is_empty())
                        && matches!(&toks[k + 1], TokenTree::Punct(p) if p.as_char() == '=')
                        && matches!(&toks[k + 2], TokenTree::Punct(p) if p.as_char() == '>');
                    if is_arm && k + 3 < toks.len() {
                        if let TokenTree::Group(g) = &toks[k + 3] {
                            if g.delimiter() == Delimiter::Brace {
                                let parser = |input: syn::parse::ParseStream| -> syn::Result<Vec<syn::ImplItem>> {
                                    let mut v = vec![];
                                    while !input.is_empty() {
                                        v.push(input.parse::<syn::ImplItem>()?);
                                    }
                                    Ok(v)
                                };
                                if let Ok(v) = parser.parse2(g.stream()) {
                                    for ii in v {
                                        if let syn::ImplItem::Fn(f) = ii {
                                            out.push((name.clone(), f));
                                        }
                                    }
                                }
                            }
                        }
                    }
                    k += 1;
                }
            }
            syn::Item::Mod(m) => {
                if let Some((_, its)) = &m.content {
                    collect_macro_fns(its, out);
                }
            }
            _ => {}
        }
    }
}

// ---------------------------------------------------------------------------------------------- edits

#[derive(Clone, Debug)]
enum Part {
    Lit(String),
    Src(usize, usize),
}

#[derive(Clone, Debug)]
struct Edit {
    start: usize,
    end: usize,
    rule: String,
    parts: Vec<Part>,
    /// origin tag for line map: None => repo line of `start`; Some(tag) => contract clause / hint
    origin: Option<String>,
    /// ordering among zero-width edits at the same offset
    prio: i32,
}

fn lit(s: &str) -> Part {
    Part::Lit(s.to_string())
}

struct Out {
    text: String,
    /// (byte offset in text, origin) -- origin applies from this offset on
    marks: Vec<(usize, String)>,
    log: Vec<Value>,
    next_id: usize,
}

impl Out {
    fn mark(&mut self, origin: String) {
        self.marks.push((self.text.len(), origin));
    }
}

fn nested(a: &Edit, b: &Edit) -> bool {
    // is a strictly inside b?
    if std::ptr::eq(a, b) {
        return false;
    }
    let (al, bl) = (a.end - a.start, b.end - b.start);
    if bl == 0 {
        return false;
    }
    if al == 0 {
        return b.start < a.start && a.start < b.end;
    }
    b.start <= a.start && a.end <= b.end && bl > al
}

/// Render src[s..e) applying the edits that lie inside it. Outer edits win; their `Src` parts are
/// rendered recursively so nested edits inside those sub-ranges still apply.
fn render(src: &Src, edits: &[Edit], s: usize, e: usize, out: &mut Out, depth: usize) {
    let mut inside: Vec<&Edit> = edits
        .iter()
        .filter(|x| s <= x.start && x.end <= e && !(x.start == s && x.end == e && depth > 0 && x.end > x.start && false))
        .collect();
    inside.sort_by_key(|x| (x.start, (x.end - x.start != 0) as i32, x.prio, x.end));
    let top: Vec<&Edit> = inside.iter().copied().filter(|a| !inside.iter().any(|b| nested(a, b))).collect();
    let mut pos = s;
    for ed in top {
        if ed.start < pos {
            // overlapping non-nested edits: keep the first, drop this one (logged)
            out.log.push(json!({"rule": "DROPPED-OVERLAP", "file": src.rel, "start": ed.start, "end": ed.end, "dropped_rule": ed.rule}));
            continue;
        }
        out.mark(format!("repo:{}:{}", src.rel, src.line_of(pos)));
        out.text.push_str(&src.text[pos..ed.start]);
        let id = out.next_id;
        out.next_id += 1;
        let at = out.text.len();
        let origin = ed.origin.clone().unwrap_or_else(|| format!("repo:{}:{}", src.rel, src.line_of(ed.start)));
        out.mark(origin.clone());
        let _ = write!(out.text, "/*[{}*/", id);
        for p in &ed.parts {
            match p {
                Part::Lit(t) => {
                    out.mark(origin.clone());
                    out.text.push_str(t)
                }
                Part::Src(a, b) => {
                    // edits strictly inside [a,b) other than this one
                    let sub: Vec<Edit> = edits.iter().filter(|x| !std::ptr::eq(*x, ed) && *a <= x.start && x.end <= *b && !(x.start == ed.start && x.end == ed.end) && !(x.start == x.end && (x.start == *a || x.start == *b))).cloned().collect();
                    render(src, &sub, *a, *b, out, depth + 1);
                }
            }
        }
        out.mark(origin.clone());
        let _ = write!(out.text, "/*{}]*/", id);
        let after = out.text[at..].to_string();
        out.log.push(json!({
            "id": id, "rule": ed.rule, "file": src.rel, "line": src.line_of(ed.start),
            "start": ed.start, "end": ed.end, "before": &src.text[ed.start..ed.end], "after": after,
        }));
        pos = ed.end;
    }
    out.mark(format!("repo:{}:{}", src.rel, src.line_of(pos)));
    out.text.push_str(&src.text[pos..e]);
}

// ---------------------------------------------------------------------------------------------- directives
thread_local! { static FMT_EMITTED: std::cell::RefCell<std::collections::HashSet<String>> = std::cell::RefCell::new(std::collections::HashSet::new()); }
thread_local! { static INCLUDED: std::cell::RefCell<std::collections::HashSet<std::path::PathBuf>> = std::cell::RefCell::new(std::collections::HashSet::new()); }

#[derive(Default, Debug, Clone)]
struct FnDir {
    anchor: String,
    vrs_line: usize,
    requires: Vec<Clause>,
    ensures: Vec<Clause>,
    decreases: Vec<Clause>,
    loops: BTreeMap<usize, LoopDir>,
    ats: Vec<AtDir>,
    attrs: Vec<String>,
    substs: Vec<(String, String, String)>, // (where: sig|body, old, new)
    rename: Option<String>,
    no_return_name: bool,
    drop_sites: bool,
    safety: Option<String>,
    imported_from: Option<String>,
    fmt_interp: bool,
    /// R10: the Self type the macro-defined fn is instantiated for (a type of the unit)
    for_type: Option<String>,
    /// names of the local binders (let / for / closure / match patterns, in source order) of the
    /// function body at the time the contract was written: a pure renaming of locals in the changed
    /// code is followed by renaming them in the spliced contract text
    binders: Option<Vec<String>>,
    /// extracted on the driver's request (helper introduced by a change), no contract
    auto: bool,
    /// `//@ exits-ok [clause] <condition>`: every exit of the function that returns a value (each
    /// `return e` and the tail expression) is wrapped so that `e.is_ok() ==> condition` is an
    /// obligation at that exit; the condition may mention locals and ghost variables (needed where
    /// `self` is consumed and a postcondition cannot speak about the final state)
    exits_ok: Vec<Clause>,
}

#[derive(Default, Debug, Clone)]
struct Clause {
    id: String,
    text: String,
    vrs_line: usize,
}

#[derive(Default, Debug, Clone)]
struct LoopDir {
    invariant: Vec<Clause>,
    invariant_except_break: Vec<Clause>,
    ensures: Vec<Clause>,
    decreases: Vec<Clause>,
}

#[derive(Default, Debug, Clone)]
struct AtDir {
    /// `check`: carries an obligation / a ghost declaration contracts depend on -- never dropped;
    /// `at`: proof hint -- all hints of a function are dropped when one cannot be re-attached
    keep: bool,
    pos: String,
    clause: String,
    text: String,
    vrs_line: usize,
}

enum Piece {
    Item(usize, String),
    Import(usize, String, String),
    Prelude(String, usize, String),
    Struct(usize, String),
    Func(FnDir),
    /// `//@ expect <file> "<text>"`: the (whitespace-normalised) text must occur in the file, else the
    /// anchor is lost (structural facts a contract relies on, e.g. that an impl invokes a macro)
    Expect(usize, String, String),
    /// `//@ expect-impl <file> "<Trait> for <Type>" m1,m2`: that trait impl must define exactly these methods (a new
    /// method would OVERRIDE a default the contracts assume -- e.g. `write_all` of `Write` -- without being under contract)
    ExpectImpl(usize, String, String, Vec<String>),
}

fn parse_clause_lines(lines: &[(usize, String)]) -> Vec<Clause> {
    let mut v: Vec<Clause> = vec![];
    for (ln, l) in lines {
        let t = l.trim();
        if t.is_empty() || t.starts_with("// ") {
            continue;
        }
        if t.starts_with('[') {
            if let Some(close) = t.find(']') {
                v.push(Clause { id: t[1..close].to_string(), text: t[close + 1..].trim().to_string(), vrs_line: *ln });
                continue;
            }
        }
        match v.last_mut() {
            Some(c) => {
                c.text.push('\n');
                c.text.push_str(l.trim_end());
            }
            None => bail!("unit line {}: clause text before any [id]", ln),
        }
    }
    for c in &mut v {
        let t = c.text.trim_end();
        c.text = t.trim_end_matches(',').to_string();
    }
    v
}

fn parse_unit(path: &str) -> (Vec<Piece>, Vec<(String, String)>) {
    let text = std::fs::read_to_string(path).unwrap_or_else(|e| bail!("cannot read unit {}: {}", path, e));
    let fname = std::path::Path::new(path).file_name().unwrap().to_string_lossy().to_string();
    let mut pieces = vec![];
    let mut bound_map: Vec<(String, String)> = vec![];
    let lines: Vec<&str> = text.lines().collect();
    let mut i = 0;
    while i < lines.len() {
        let l = lines[i];
        if let Some(rest) = l.strip_prefix("//@ ") {
            let rest = rest.trim();
            if let Some(a) = rest.strip_prefix("include ") {
                let inc = std::path::Path::new(path).parent().unwrap().join(a.trim());
                // include-once: preludes include what they need; a file is spliced the first time only
                let key = std::fs::canonicalize(&inc).unwrap_or_else(|e| bail!("include {}: {}", inc.display(), e));
                let seen = INCLUDED.with(|s| !s.borrow_mut().insert(key));
                if seen {
                    i += 1;
                    continue;
                }
                let (p2, b2) = parse_unit(&inc.to_string_lossy());
                pieces.extend(p2);
                bound_map.extend(b2);
                i += 1;
                continue;
            }
            if let Some(a) = rest.strip_prefix("import ") {
                // //@ import <unit file> <anchor>: the callee's contract, proved in that unit, assumed here
                let (u, anchor) = a.trim().split_once(' ').unwrap_or_else(|| bail!("line {}: import <unit> <anchor>", i + 1));
                let inc = std::path::Path::new(path).parent().unwrap().join(u.trim());
                pieces.push(Piece::Import(i + 1, inc.to_string_lossy().to_string(), anchor.trim().to_string()));
                i += 1;
                continue;
            }
            if let Some(a) = rest.strip_prefix("item ") {
                pieces.push(Piece::Item(i + 1, a.trim().to_string()));
                i += 1;
                continue;
            }
            if let Some(a) = rest.strip_prefix("struct ") {
                pieces.push(Piece::Struct(i + 1, a.trim().to_string()));
                i += 1;
                continue;
            }
            if let Some(a) = rest.strip_prefix("expect-impl ") {
                let (f, t) = a.trim().split_once(' ').unwrap_or_else(|| bail!("line {}: expect-impl <file> \"Trait for Type\" m1,m2", i + 1));
                let t = t.trim();
                let close = t[1..].find('"').unwrap_or_else(|| bail!("line {}: expect-impl: unterminated quote", i + 1)) + 1;
                let head = t[1..close].to_string();
                let ms: Vec<String> = t[close + 1..].split(',').map(|m| m.trim().to_string()).filter(|m| !m.is_empty()).collect();
                pieces.push(Piece::ExpectImpl(i + 1, f.trim().to_string(), head, ms));
                i += 1;
                continue;
            }
            if let Some(a) = rest.strip_prefix("expect ") {
                let (f, t) = a.trim().split_once(' ').unwrap_or_else(|| bail!("line {}: expect <file> \"text\"", i + 1));
                pieces.push(Piece::Expect(i + 1, f.trim().to_string(), t.trim().trim_matches('"').to_string()));
                i += 1;
                continue;
            }
            if let Some(a) = rest.strip_prefix("bound-map ") {
                let (o, n) = parse_arrow(a, i + 1);
                bound_map.push((o, n));
                i += 1;
                continue;
            }
            if let Some(a) = rest.strip_prefix("fn ") {
                let mut fd = FnDir { anchor: a.trim().to_string(), vrs_line: i + 1, ..Default::default() };
                i += 1;
                let mut section = String::new();
                let mut buf: Vec<(usize, String)> = vec![];
                loop {
                    if i >= lines.len() {
                        bail!("unit {}: //@ fn {} without //@ end", path, fd.anchor);
                    }
                    let l = lines[i];
                    let is_dir = l.trim_start().starts_with("//@ ") || l.trim() == "//@";
                    if is_dir {
                        flush_section(&mut fd, &section, &buf);
                        buf.clear();
                        section = l.trim_start()[3..].trim().to_string();
                        let sl = i + 1;
                        i += 1;
                        if section == "end" {
                            break;
                        }
                        // single-line directives
                        if let Some(a) = section.strip_prefix("subst-all ") {
                            let (w, r) = a.trim().split_once(' ').unwrap_or_else(|| bail!("line {}: bad subst-all", sl));
                            let (o, n) = parse_arrow(r, sl);
                            fd.substs.push((format!("{}*", w), o, n));
                            section.clear();
                        } else if let Some(a) = section.strip_prefix("subst ") {
                            let (w, r) = a.trim().split_once(' ').unwrap_or_else(|| bail!("line {}: bad subst", sl));
                            let (o, n) = parse_arrow(r, sl);
                            fd.substs.push((w.to_string(), o, n));
                            section.clear();
                        } else if let Some(a) = section.strip_prefix("rename ") {
                            fd.rename = Some(a.trim().to_string());
                            section.clear();
                        } else if let Some(a) = section.strip_prefix("attr ") {
                            fd.attrs.push(a.trim().to_string());
                            section.clear();
                        } else if let Some(a) = section.strip_prefix("safety ") {
                            fd.safety = Some(a.trim().trim_start_matches('[').trim_end_matches(']').to_string());
                            section.clear();
                        } else if let Some(a) = section.strip_prefix("exits-ok ") {
                            let a = a.trim();
                            let close = a.find(']').unwrap_or_else(|| bail!("line {}: exits-ok [clause] <condition>", sl));
                            fd.exits_ok.push(Clause { id: a[1..close].to_string(), text: a[close + 1..].trim().to_string(), vrs_line: sl });
                            section.clear();
                        } else if let Some(a) = section.strip_prefix("binders") {
                            fd.binders = Some(a.split_whitespace().map(|x| x.to_string()).collect());
                            section.clear();
                        } else if let Some(a) = section.strip_prefix("for-type ") {
                            fd.for_type = Some(a.trim().to_string());
                            section.clear();
                        } else if section == "fmt-interp" {
                            fd.fmt_interp = true;
                            section.clear();
                        } else if section == "no-return-name" {
                            fd.no_return_name = true;
                            section.clear();
                        } else if section == "drop-sites" {
                            fd.drop_sites = true;
                            section.clear();
                        } else {
                            section = format!("{}\u{1}{}", sl, section);
                        }
                        continue;
                    }
                    buf.push((i + 1, l.to_string()));
                    i += 1;
                }
                pieces.push(Piece::Func(fd));
                continue;
            }
            bail!("unit {} line {}: unknown directive `{}`", path, i + 1, rest);
        }
        pieces.push(Piece::Prelude(fname.clone(), i + 1, l.to_string()));
        i += 1;
    }
    (pieces, bound_map)
}

fn parse_arrow(a: &str, ln: usize) -> (String, String) {
    // "old" => "new"
    let a = a.trim();
    let parts: Vec<&str> = a.split("\" => \"").collect();
    if parts.len() != 2 || !a.starts_with('"') || !a.ends_with('"') {
        bail!("line {}: expected \"old\" => \"new\", got {}", ln, a);
    }
    let un = |t: &str| t.replace("\\\"", "\"").replace("\\n", "\n");
    (un(&parts[0][1..]), un(&parts[1][..parts[1].len() - 1]))
}

fn flush_section(fd: &mut FnDir, section: &str, buf: &[(usize, String)]) {
    if section.is_empty() {
        if buf.iter().any(|(_, l)| !l.trim().is_empty()) {
            bail!("unit line {}: text outside a section in fn block {}", buf[0].0, fd.anchor);
        }
        return;
    }
    let (sl, sec) = section.split_once('\u{1}').unwrap();
    let sl: usize = sl.parse().unwrap();
    let words: Vec<&str> = sec.split_whitespace().collect();
    match words[0] {
        "requires" => fd.requires.extend(parse_clause_lines(buf)),
        "ensures" => fd.ensures.extend(parse_clause_lines(buf)),
        "decreases" => fd.decreases.extend(parse_clause_lines(buf)),
        "loop" => {
            let n: usize = words.get(1).and_then(|w| w.parse().ok()).unwrap_or_else(|| bail!("line {}: loop <n> <kind>", sl));
            let ld = fd.loops.entry(n).or_default();
            let cl = parse_clause_lines(buf);
            match words.get(2).copied() {
                Some("invariant") => ld.invariant.extend(cl),
                Some("invariant_except_break") => ld.invariant_except_break.extend(cl),
                Some("ensures") => ld.ensures.extend(cl),
                Some("decreases") => ld.decreases.extend(cl),
                _ => bail!("line {}: loop section kind", sl),
            }
        }
        "at" | "check" => {
            // at <pos...> [clause]
            let keep = words[0] == "check";
            let rest = sec[words[0].len()..].trim();
            let (pos, clause) = match rest.rfind('[') {
                Some(k) if rest.ends_with(']') => (rest[..k].trim().to_string(), rest[k + 1..rest.len() - 1].to_string()),
                _ => (rest.to_string(), String::new()),
            };
            let text = buf.iter().map(|(_, l)| l.as_str()).collect::<Vec<_>>().join("\n");
            fd.ats.push(AtDir { keep, pos, clause, text, vrs_line: sl });
        }
        _ => bail!("unit line {}: unknown section `{}`", sl, sec),
    }
}

// ---------------------------------------------------------------------------------------------- anchor lookup

enum Found<'a> {
    Free(&'a syn::ItemFn),
    Method(&'a syn::ItemImpl, &'a syn::ImplItemFn),
    TraitDefault(&'a syn::ItemTrait, &'a syn::TraitItemFn),
    /// R10: fn defined in the parameterless arm of a macro_rules! definition
    MacroFn(&'a syn::ImplItemFn),
}

fn type_last_ident(t: &syn::Type) -> Option<String> {
    match t {
        syn::Type::Path(p) => p.path.segments.last().map(|s| s.ident.to_string()),
        syn::Type::Reference(r) => type_last_ident(&r.elem),
        syn::Type::Slice(_) => Some("[]".into()),
        _ => None,
    }
}

fn cfg_verdict(attrs: &[syn::Attribute]) -> Option<bool> {
    // Some(true): keep (cfg(feature="tls")); Some(false): drop (cfg(not(feature="tls"))) or cfg(test)
    for a in attrs {
        if a.path().is_ident("cfg") {
            let s = a.meta.require_list().map(|l| l.tokens.to_string()).unwrap_or_default();
            let s: String = s.chars().filter(|c| !c.is_whitespace()).collect();
            if s == "feature=\"tls\"" {
                return Some(true);
            } else if s == "not(feature=\"tls\")" || s == "test" {
                return Some(false);
            } else {
                bail!("unsupported cfg predicate `{}` (rule R2 knows feature=\"tls\" only)", s);
            }
        }
    }
    None
}

fn find_fn<'a>(src: &'a Src, segs: &[&str]) -> Found<'a> {
    let mut hits: Vec<Found<'a>> = vec![];
    if segs.len() == 2 && segs[0].starts_with("macro!") {
        let mname = &segs[0]["macro!".len()..];
        for (n, f) in &src.macro_fns {
            if n == mname && f.sig.ident == segs[1] {
                hits.push(Found::MacroFn(f));
            }
        }
        if hits.len() != 1 {
            bail!("lost anchor: {}::{} resolves to {} items", src.rel, segs.join("::"), hits.len());
        }
        return hits.pop().unwrap();
    }
    fn walk<'a>(items: &'a [syn::Item], segs: &[&str], hits: &mut Vec<Found<'a>>) {
        for it in items {
            match it {
                syn::Item::Fn(f) if segs.len() == 1 && f.sig.ident == segs[0] => {
                    if cfg_verdict(&f.attrs) != Some(false) {
                        hits.push(Found::Free(f))
                    }
                }
                syn::Item::Impl(im) if segs.len() >= 2 => {
                    if cfg_verdict(&im.attrs) == Some(false) {
                        continue;
                    }
                    let tn = type_last_ident(&im.self_ty).unwrap_or_default();
                    // Type::method  or  Type::Trait::method
                    let (want_trait, m) = if segs.len() == 3 { (Some(segs[1]), segs[2]) } else { (None, segs[1]) };
                    if tn != segs[0] {
                        continue;
                    }
                    if let Some(wt) = want_trait {
                        let tr = im.trait_.as_ref().and_then(|t| t.1.segments.last().map(|s| s.ident.to_string()));
                        if tr.as_deref() != Some(wt) {
                            continue;
                        }
                    }
                    for ii in &im.items {
                        if let syn::ImplItem::Fn(f) = ii {
                            if f.sig.ident == m && cfg_verdict(&f.attrs) != Some(false) {
                                hits.push(Found::Method(im, f));
                            }
                        }
                    }
                }
                syn::Item::Trait(tr) if segs.len() == 2 && tr.ident == segs[0] => {
                    for ti in &tr.items {
                        if let syn::TraitItem::Fn(f) = ti {
                            if f.sig.ident == segs[1] && f.default.is_some() {
                                hits.push(Found::TraitDefault(tr, f));
                            }
                        }
                    }
                }
                syn::Item::Mod(m) => {
                    if cfg_verdict(&m.attrs) == Some(false) {
                        continue;
                    }
                    if let Some((_, its)) = &m.content {
                        walk(its, segs, hits);
                    }
                }
                _ => {}
            }
        }
    }
    walk(&src.file.items, segs, &mut hits);
    if hits.len() != 1 {
        bail!("lost anchor: {}::{} resolves to {} items", src.rel, segs.join("::"), hits.len());
    }
    hits.pop().unwrap()
}

// ---------------------------------------------------------------------------------------------- body visitor (rule table)

struct Rules<'a> {
    src: &'a Src,
    edits: Vec<Edit>,
    /// (start, end) of every statement and of every block tail expression, innermost last
    stmts: Vec<(usize, usize)>,
    /// loops in pre-order: (offset of body `{`, offset just after `{`, offset of `}`)
    loops: Vec<(usize, usize, usize)>,
    rename_self: bool,
    unsupported: Vec<String>,
    fmt_interp: bool,
    /// generated items for R11: (name, code)
    fmt_items: Vec<(String, String)>,
    /// the macro being visited is the whole body of a match arm (an expression of the arms' type)
    arm_body_macro: bool,
}

/// R7 receivers: a map reached through a field of `self` is (in this crate) held by `&mut` reference, so the wrapper
/// gets a reborrow `&mut *self.f`; a local map is borrowed directly. A wrong guess is a type error (undecided), never a
/// changed meaning.
fn map_borrow_prefix(recv: &syn::Expr) -> &'static str {
    if let syn::Expr::Field(f) = recv {
        if let syn::Expr::Path(p) = &*f.base {
            if p.path.is_ident("self") || p.path.is_ident("self_") {
                return "&mut *";
            }
        }
    }
    "&mut "
}

fn path_str(p: &syn::Path) -> String {
    let mut s = String::new();
    if p.leading_colon.is_some() {
        s.push_str("::");
    }
    for (i, seg) in p.segments.iter().enumerate() {
        if i > 0 {
            s.push_str("::");
        }
        s.push_str(&seg.ident.to_string());
    }
    s
}

impl<'a> Rules<'a> {
    fn r(&self, s: Span) -> (usize, usize) {
        self.src.range(s)
    }
    fn push(&mut self, rule: &str, range: (usize, usize), parts: Vec<Part>) {
        self.edits.push(Edit { start: range.0, end: range.1, rule: rule.to_string(), parts, origin: None, prio: 0 });
    }
    fn src_part(&self, s: Span) -> Part {
        let r = self.r(s);
        Part::Src(r.0, r.1)
    }

    fn handle_macro(&mut self, mac: &syn::Macro, whole: (usize, usize)) {
        let name = path_str(&mac.path);
        let args = || -> Vec<syn::Expr> {
            let p = syn::punctuated::Punctuated::<syn::Expr, syn::Token![,]>::parse_terminated;
            match syn::parse::Parser::parse2(p, mac.tokens.clone()) {
                Ok(v) => v.into_iter().collect(),
                Err(_) => vec![],
            }
        };
        match name.as_str() {
            "format" if self.fmt_interp => {
                // R11: the format literal is interpreted: a changed literal or argument order changes the spec term
                let a = args();
                let litstr = match a.first() {
                    Some(syn::Expr::Lit(syn::ExprLit { lit: syn::Lit::Str(l), .. })) => Some(l.value()),
                    _ => None,
                };
                match litstr {
                    None => self.unsupported.push(format!("format! without a literal at {}", self.src.line_of(whole.0))),
                    Some(f) => {
                        let nargs = a.len() - 1;
                        let (name, code) = gen_fmt(&f, nargs);
                        if !self.fmt_items.iter().any(|(n, _)| n == &name) {
                            self.fmt_items.push((name.clone(), code));
                        }
                        let mut parts = vec![lit(&format!("vfmt_{}(", name))];
                        for (k, e) in a[1..].iter().enumerate() {
                            if k > 0 {
                                parts.push(lit(", "));
                            }
                            parts.push(self.src_part(e.span()));
                        }
                        parts.push(lit(")"));
                        self.push("R11", whole, parts);
                        for e in &a[1..] {
                            self.visit_expr(e);
                        }
                    }
                }
            }
            "format" => {
                // R5: the MESSAGE is dropped (format string, Display/Debug of the values); the argument expressions
                // are still evaluated, so that an index, a slice, arithmetic or a call inside them keeps its
                // obligations (a panic while building an error message is a panic)
                let a = args();
                if a.len() <= 1 {
                    self.push("R5", whole, vec![lit("vfmt_msg()")]);
                } else {
                    let mut parts = vec![lit("({ ")];
                    for e in a[1..].iter() {
                        parts.push(lit("vfmt_arg(&("));
                        parts.push(self.src_part(e.span()));
                        parts.push(lit(")); "));
                    }
                    parts.push(lit("vfmt_msg() })"));
                    self.push("R5", whole, parts);
                    for e in &a[1..] {
                        self.visit_expr(e);
                    }
                }
            }
            // as the body of a match arm the macro stands for a value of the arms' type: generic stub
            "panic" | "unreachable" | "unimplemented" | "todo" if self.arm_body_macro => self.push("R6", whole, vec![lit("vpanic_any()")]),
            "panic" | "unreachable" | "unimplemented" | "todo" => self.push("R6", whole, vec![lit("vpanic()")]),
            "assert" | "debug_assert" => {
                let a = args();
                if a.is_empty() {
                    self.unsupported.push(format!("assert! with unparsable arguments at {}", self.src.line_of(whole.0)));
                    return;
                }
                let p = self.src_part(a[0].span());
                self.push("R6", whole, vec![lit("vassert("), p, lit(")")]);
                for e in &a[..1] {
                    self.visit_expr(e);
                }
            }
            "assert_eq" | "assert_ne" => {
                let a = args();
                if a.len() < 2 {
                    self.unsupported.push(format!("assert_eq! with unparsable arguments at {}", self.src.line_of(whole.0)));
                    return;
                }
                let (p0, p1) = (self.src_part(a[0].span()), self.src_part(a[1].span()));
                let op = if name == "assert_eq" { " == " } else { " != " };
                self.push("R6", whole, vec![lit("vassert(("), p0, lit(")"), lit(op), lit("("), p1, lit("))")]);
                for e in &a[..2] {
                    self.visit_expr(e);
                }
            }
            "vec" => {
                // kept: vstd provides vec!
                for e in args() {
                    self.visit_expr(&e);
                }
            }
            "println" | "eprintln" | "print" | "dbg" => self.push("R5", whole, vec![lit("()")]),
            "matches" => {}
            other => self.unsupported.push(format!("macro {}! at {}:{}", other, self.src.rel, self.src.line_of(whole.0))),
        }
    }

    fn byte_str(&mut self, l: &syn::LitByteStr) {
        let r = self.r(l.span());
        let v = l.value();
        let body = v.iter().map(|b| format!("{}u8", b)).collect::<Vec<_>>().join(", ");
        self.push("R17", r, vec![lit(&format!("(&[{}])", body))]);
    }
}

impl<'a, 'ast> Visit<'ast> for Rules<'a> {
    fn visit_block(&mut self, b: &'ast syn::Block) {
        for st in &b.stmts {
            let r = self.r(st.span());
            // extend over a trailing `;` that syn's span for macro / expr statements includes already
            self.stmts.push(r);
        }
        visit::visit_block(self, b);
    }

    fn visit_stmt(&mut self, st: &'ast syn::Stmt) {
        // R2: cfg on statements
        let attrs: &[syn::Attribute] = match st {
            syn::Stmt::Local(l) => &l.attrs,
            syn::Stmt::Expr(e, _) => expr_attrs(e),
            syn::Stmt::Macro(m) => &m.attrs,
            syn::Stmt::Item(_) => &[],
        };
        match cfg_verdict(attrs) {
            Some(false) => {
                let r = self.r(st.span());
                self.push("R2", r, vec![]);
                return;
            }
            Some(true) => {
                for a in attrs {
                    if a.path().is_ident("cfg") {
                        let r = self.r(a.span());
                        self.push("R2", r, vec![]);
                    }
                }
            }
            None => {}
        }
        match st {
            syn::Stmt::Item(syn::Item::Use(u)) => {
                // R19: function-local `use std::...` -> prelude shim
                let r = self.r(u.span());
                let t = self.src.slice(r).to_string();
                if t.contains("std::") {
                    let n = t.replacen("::std::", "crate::std_shim::", 1);
                    let n = if n == t { t.replacen("std::", "crate::std_shim::", 1) } else { n };
                    self.push("R19", r, vec![lit(&n)]);
                }
                return;
            }
            syn::Stmt::Macro(m) => {
                let r = self.r(st.span());
                // keep the trailing semicolon outside the replaced range
                let mr = self.r(m.mac.span());
                let _ = r;
                self.handle_macro(&m.mac, mr);
                return;
            }
            syn::Stmt::Expr(syn::Expr::MethodCall(mc), Some(_))
                if (mc.method == "unwrap" && mc.args.is_empty()) || (mc.method == "expect" && mc.args.len() == 1) =>
            {
                // R16s: `E.unwrap();` as a statement (value discarded) only says "E must have succeeded": it becomes
                // `must_hold(E);` whose contract is `requires ok, ensures ok` -- the obligation stays exactly where it
                // was, and what follows is checked for the case in which execution gets that far (a panic does not return)
                let whole = self.r(mc.span());
                let recv = self.src_part(mc.receiver.span());
                self.push("R16", whole, vec![lit("must_hold("), recv, lit(")")]);
                self.visit_expr(&mc.receiver);
                return;
            }
            syn::Stmt::Expr(syn::Expr::MethodCall(mc), Some(_)) if mc.method == "drain" && mc.args.len() == 1 => {
                if let syn::Expr::Range(rg) = &mc.args[0] {
                    let zero = rg.start.is_none() || matches!(rg.start.as_deref(), Some(syn::Expr::Lit(syn::ExprLit { lit: syn::Lit::Int(i), .. })) if i.base10_digits() == "0");
                    if zero && rg.end.is_some() && matches!(rg.limits, syn::RangeLimits::HalfOpen(_)) {
                        let whole = self.r(mc.span());
                        let recv = self.src_part(mc.receiver.span());
                        let n = self.src_part(rg.end.as_ref().unwrap().span());
                        self.push("R4", whole, vec![lit("vec_drain_prefix(&mut "), recv, lit(", "), n, lit(")")]);
                        self.visit_expr(&mc.receiver);
                        self.visit_expr(rg.end.as_ref().unwrap());
                        return;
                    }
                }
            }
            _ => {}
        }
        visit::visit_stmt(self, st);
    }

    /// R21: `StatementData { f: e, ..Default::default() }` -> the remaining fields written out with their
    /// `Default` values (the struct derives Default; Verus has no struct-update-from-Default)
    fn visit_expr_struct(&mut self, st: &'ast syn::ExprStruct) {
        let is_sd = st.path.segments.last().map(|x| x.ident == "StatementData").unwrap_or(false);
        if let (true, Some(rest), Some(dd)) = (is_sd, &st.rest, st.dot2_token) {
            let rt: String = self.src.slice(self.r(rest.span())).chars().filter(|c| !c.is_whitespace()).collect();
            if rt == "Default::default()" {
                let given: Vec<String> = st.fields.iter().filter_map(|f| match &f.member { syn::Member::Named(i) => Some(i.to_string()), _ => None }).collect();
                let mut parts: Vec<String> = vec![];
                for (name, dflt) in [("long_data", "HashMap::new()"), ("bound_types", "Vec::new()"), ("params", "0")] {
                    if !given.iter().any(|g| g == name) {
                        parts.push(format!("{}: {}", name, dflt));
                    }
                }
                let a = self.r(dd.span()).0;
                let b = self.r(rest.span()).1;
                self.push("R21", (a, b), vec![lit(&parts.join(", "))]);
                for f in &st.fields {
                    self.visit_expr(&f.expr);
                }
                return;
            }
        }
        visit::visit_expr_struct(self, st);
    }

    fn visit_expr_macro(&mut self, m: &'ast syn::ExprMacro) {
        let r = self.r(m.mac.span());
        self.handle_macro(&m.mac, r);
    }

    fn visit_arm(&mut self, a: &'ast syn::Arm) {
        if let syn::Expr::Macro(m) = &*a.body {
            self.visit_pat(&a.pat);
            if let Some((_, g)) = &a.guard {
                self.visit_expr(g);
            }
            self.arm_body_macro = true;
            self.visit_expr_macro(m);
            self.arm_body_macro = false;
        } else {
            visit::visit_arm(self, a);
        }
    }

    fn visit_expr_lit(&mut self, l: &'ast syn::ExprLit) {
        if let syn::Lit::ByteStr(b) = &l.lit {
            self.byte_str(b);
        }
    }

    fn visit_expr_match(&mut self, m: &'ast syn::ExprMatch) {
        // R20: `match e { b"lit" => {A} _ => {B} }`  ->  `if bytes_eq(e, lit) {A} else {B}`
        if m.arms.len() == 2 && m.arms[0].guard.is_none() && m.arms[1].guard.is_none() {
            let lit0 = match &m.arms[0].pat {
                syn::Pat::Lit(l) => match &l.lit {
                    syn::Lit::ByteStr(b) => Some(b.value()),
                    _ => None,
                },
                _ => None,
            };
            let wild = matches!(&m.arms[1].pat, syn::Pat::Wild(_));
            let blocks = matches!(&*m.arms[0].body, syn::Expr::Block(_)) && matches!(&*m.arms[1].body, syn::Expr::Block(_));
            if let (Some(v), true, true) = (lit0, wild, blocks) {
                let whole = self.r(m.span());
                let b0 = self.r(m.arms[0].body.span());
                let b1 = self.r(m.arms[1].body.span());
                let scrut = self.src_part(m.expr.span());
                let body = v.iter().map(|b| format!("{}u8", b)).collect::<Vec<_>>().join(", ");
                self.push("R20", (whole.0, b0.0), vec![lit("if bytes_eq("), scrut, lit(&format!(", &[{}]) ", body))]);
                self.push("R20", (b0.1, b1.0), vec![lit(" else ")]);
                self.push("R20", (b1.1, whole.1), vec![]);
                self.visit_expr(&m.expr);
                self.visit_expr(&m.arms[0].body);
                self.visit_expr(&m.arms[1].body);
                return;
            }
        }
        visit::visit_expr_match(self, m);
    }

    fn visit_expr_method_call(&mut self, mc: &'ast syn::ExprMethodCall) {
        let m = mc.method.to_string();
        // R7: HashMap::get_mut(&k) -> hm_get_mut(&mut map, k)
        if m == "get_mut" && mc.args.len() == 1 {
            if let syn::Expr::Reference(rf) = &mc.args[0] {
                let whole = self.r(mc.span());
                let recv = self.src_part(mc.receiver.span());
                let k = self.src_part(rf.expr.span());
                self.push("R7", whole, vec![lit("hm_get_mut(&mut "), recv, lit(", "), k, lit(")")]);
                self.visit_expr(&mc.receiver);
                return;
            }
        }
        // R7: X.entry(p).or_insert_with(Vec::new).extend(d) -> hm_append(&mut X, p, d)
        if m == "extend" && mc.args.len() == 1 {
            if let syn::Expr::MethodCall(m2) = &*mc.receiver {
                if m2.method == "or_insert_with" || m2.method == "or_default" {
                    if let syn::Expr::MethodCall(m3) = &*m2.receiver {
                        if m3.method == "entry" && m3.args.len() == 1 {
                            let whole = self.r(mc.span());
                            let x = self.src_part(m3.receiver.span());
                            let pk = self.src_part(m3.args[0].span());
                            let d = self.src_part(mc.args[0].span());
                            self.push("R7", whole, vec![lit("hm_append("), lit(map_borrow_prefix(&m3.receiver)), x, lit(", "), pk, lit(", "), d, lit(")")]);
                            self.visit_expr(&m3.receiver);
                            return;
                        }
                    }
                }
            }
        }
        // R7: X.entry(k).or_default() -> hm_entry_or_default(&mut X, k)
        if m == "or_default" && mc.args.is_empty() {
            if let syn::Expr::MethodCall(m3) = &*mc.receiver {
                if m3.method == "entry" && m3.args.len() == 1 {
                    let whole = self.r(mc.span());
                    let x = self.src_part(m3.receiver.span());
                    let pk = self.src_part(m3.args[0].span());
                    self.push("R7", whole, vec![lit("hm_entry_or_default("), lit(map_borrow_prefix(&m3.receiver)), x, lit(", "), pk, lit(")")]);
                    self.visit_expr(&m3.receiver);
                    return;
                }
            }
        }
        if m == "starts_with" && mc.args.len() == 1 {
            // R18: slice::starts_with -> specified free function
            let whole = self.r(mc.span());
            let recv = self.src_part(mc.receiver.span());
            let arg = self.src_part(mc.args[0].span());
            self.push("R18", whole, vec![lit("starts_with("), recv, lit(", "), arg, lit(")")]);
            self.visit_expr(&mc.receiver);
            self.visit_expr(&mc.args[0]);
            return;
        }
        if m == "extend" && mc.args.len() == 1 && matches!(&*mc.receiver, syn::Expr::Field(_)) {
            let r = self.r(mc.method.span());
            self.push("R3", r, vec![lit("extend_from_slice")]);
        }
        if (m == "unwrap_or_else" || m == "expect") && mc.args.len() == 1 {
            // R16: diverging handler / message dropped
            let diverges = m == "expect"
                || matches!(&mc.args[0], syn::Expr::Closure(c) if closure_diverges(&c.body));
            if diverges {
                let dot_to_end = (self.r(mc.method.span()).0, self.r(mc.span()).1);
                self.push("R16", dot_to_end, vec![lit("unwrap()")]);
                self.visit_expr(&mc.receiver);
                return;
            }
        }
        visit::visit_expr_method_call(self, mc);
    }

    fn visit_expr_reference(&mut self, rf: &'ast syn::ExprReference) {
        // R17b: `&<array literal / byte string>[..]` -> `&<array literal>` (same bytes; the unsizing
        // coercion to a slice is implicit at the use site)
        if rf.mutability.is_none() {
            if let syn::Expr::Index(ix) = &*rf.expr {
                let full = matches!(&*ix.index, syn::Expr::Range(rg) if rg.start.is_none() && rg.end.is_none());
                let arr = match &*ix.expr {
                    syn::Expr::Repeat(_) | syn::Expr::Array(_) => true,
                    syn::Expr::Lit(l) => matches!(&l.lit, syn::Lit::ByteStr(_)),
                    _ => false,
                };
                if full && arr {
                    let whole = self.r(rf.span());
                    match &*ix.expr {
                        syn::Expr::Lit(syn::ExprLit { lit: syn::Lit::ByteStr(b), .. }) => {
                            let body = b.value().iter().map(|x| format!("{}u8", x)).collect::<Vec<_>>().join(", ");
                            self.push("R17", whole, vec![lit(&format!("&[{}]", body))]);
                        }
                        other => {
                            let a = self.src_part(other.span());
                            self.push("R17", whole, vec![lit("&"), a]);
                        }
                    }
                    return;
                }
            }
        }
        if rf.mutability.is_some() {
            if let syn::Expr::Index(ix) = &*rf.expr {
                if let syn::Expr::Range(rg) = &*ix.index {
                    if matches!(rg.limits, syn::RangeLimits::HalfOpen(_)) {
                        let whole = self.r(rf.span());
                        let base = self.src_part(ix.expr.span());
                        match (&rg.start, &rg.end) {
                            (Some(a), None) => {
                                let a = self.src_part(a.span());
                                self.push("R15", whole, vec![lit("vec_tail_mut(&mut "), base, lit(", "), a, lit(")")]);
                            }
                            (Some(a), Some(b)) => {
                                let (a, b) = (self.src_part(a.span()), self.src_part(b.span()));
                                self.push("R15", whole, vec![lit("vec_range_mut(&mut "), base, lit(", "), a, lit(", "), b, lit(")")]);
                            }
                            _ => {}
                        }
                    }
                }
            }
        }
        visit::visit_expr_reference(self, rf);
    }

    fn visit_expr_path(&mut self, p: &'ast syn::ExprPath) {
        let s = path_str(&p.path);
        if s.starts_with("std::") || s.starts_with("::std::") {
            let r = self.r(p.path.span());
            let t = self.src.slice(r).to_string();
            let n = if t.starts_with("::std::") { t.replacen("::std::", "crate::std_shim::", 1) } else { t.replacen("std::", "crate::std_shim::", 1) };
            self.push("R19", r, vec![lit(&n)]);
        } else if self.rename_self && s == "self" {
            let r = self.r(p.path.span());
            self.push("R12", r, vec![lit("self_")]);
        }
        visit::visit_expr_path(self, p);
    }

    fn visit_expr_loop(&mut self, l: &'ast syn::ExprLoop) {
        self.note_loop(&l.body);
        visit::visit_expr_loop(self, l);
    }
    fn visit_expr_while(&mut self, l: &'ast syn::ExprWhile) {
        self.note_loop(&l.body);
        visit::visit_expr_while(self, l);
    }
    fn visit_expr_for_loop(&mut self, l: &'ast syn::ExprForLoop) {
        self.note_loop(&l.body);
        visit::visit_expr_for_loop(self, l);
    }
    fn visit_attribute(&mut self, _a: &'ast syn::Attribute) {}
}

impl<'a> Rules<'a> {
    fn note_loop(&mut self, body: &syn::Block) {
        let open = self.r(body.brace_token.span.open());
        let close = self.r(body.brace_token.span.close());
        self.loops.push((open.0, open.1, close.0));
    }
}

/// R11: turn a format literal into a spec term over `dec` / `dec_pad` (std's Display for integers,
/// assumed) and literal bytes. Unknown format specs map to an uninterpreted function.
fn gen_fmt(f: &str, nargs: usize) -> (String, String) {
    let mut h: u64 = 0xcbf29ce484222325;
    for b in f.bytes() {
        h ^= b as u64;
        h = h.wrapping_mul(0x100000001b3);
    }
    let name = format!("{:08x}_{}", (h & 0xffff_ffff) as u32, nargs);
    let mut segs: Vec<String> = vec![];
    let mut litbuf: Vec<u8> = vec![];
    let bytes = f.as_bytes();
    let mut i = 0;
    let mut argi = 0usize;
    let mut ok = true;
    let flush = |litbuf: &mut Vec<u8>, segs: &mut Vec<String>| {
        if !litbuf.is_empty() {
            segs.push(format!("seq![{}]", litbuf.iter().map(|b| format!("{}u8", b)).collect::<Vec<_>>().join(", ")));
            litbuf.clear();
        }
    };
    while i < bytes.len() {
        match bytes[i] {
            b'{' if i + 1 < bytes.len() && bytes[i + 1] == b'{' => {
                litbuf.push(b'{');
                i += 2;
            }
            b'}' if i + 1 < bytes.len() && bytes[i + 1] == b'}' => {
                litbuf.push(b'}');
                i += 2;
            }
            b'{' => {
                let close = match f[i..].find('}') {
                    Some(c) => i + c,
                    None => {
                        ok = false;
                        break;
                    }
                };
                let spec = &f[i + 1..close];
                flush(&mut litbuf, &mut segs);
                if spec.is_empty() {
                    segs.push(format!("dec(a[{}])", argi));
                } else if spec.starts_with(":0") && spec[2..].chars().all(|c| c.is_ascii_digit()) && spec.len() > 2 {
                    segs.push(format!("dec_pad({}, a[{}])", &spec[2..], argi));
                } else {
                    segs.push(format!("fmt_opaque({}, {}, a[{}])", h & 0xffff_ffff, argi, argi));
                }
                argi += 1;
                i = close + 1;
            }
            b => {
                litbuf.push(b);
                i += 1;
            }
        }
    }
    flush(&mut litbuf, &mut segs);
    if !ok || argi != nargs {
        segs = vec![format!("fmt_opaque({}, 0, 0)", h & 0xffff_ffff)];
    }
    if segs.is_empty() {
        segs.push("Seq::<u8>::empty()".to_string());
    }
    let generics: Vec<String> = (0..nargs).map(|k| format!("A{}: DecArg", k)).collect();
    let params: Vec<String> = (0..nargs).map(|k| format!("a{}: A{}", k, k)).collect();
    let vals: Vec<String> = (0..nargs).map(|k| format!("a{}.dval()", k)).collect();
    let code = format!(
        "// R11: generated from the format literal {:?}\npub open spec fn fmt_{name}(a: Seq<int>) -> Seq<u8> {{ {} }}\n#[verifier::external_body]\npub fn vfmt_{name}{}({}) -> (r: String)\n    ensures str_bytes(&r) == fmt_{name}(seq![{}])\n{{ unimplemented!() }}\n",
        f,
        segs.join(" + "),
        if nargs > 0 { format!("<{}>", generics.join(", ")) } else { String::new() },
        params.join(", "),
        if nargs > 0 { vals.join(", ") } else { String::new() },
        name = name
    );
    (name, code)
}

fn closure_diverges(e: &syn::Expr) -> bool {
    match e {
        syn::Expr::Macro(m) => {
            let n = path_str(&m.mac.path);
            n == "panic" || n == "unreachable" || n == "unimplemented"
        }
        syn::Expr::Block(b) => b.block.stmts.len() == 1 && match &b.block.stmts[0] {
            syn::Stmt::Macro(m) => {
                let n = path_str(&m.mac.path);
                n == "panic" || n == "unreachable"
            }
            syn::Stmt::Expr(e, _) => closure_diverges(e),
            _ => false,
        },
        _ => false,
    }
}

fn expr_attrs(e: &syn::Expr) -> &[syn::Attribute] {
    match e {
        syn::Expr::If(x) => &x.attrs,
        syn::Expr::Block(x) => &x.attrs,
        syn::Expr::Call(x) => &x.attrs,
        syn::Expr::MethodCall(x) => &x.attrs,
        syn::Expr::Assign(x) => &x.attrs,
        syn::Expr::Match(x) => &x.attrs,
        syn::Expr::Let(x) => &x.attrs,
        syn::Expr::Return(x) => &x.attrs,
        _ => &[],
    }
}

// ---------------------------------------------------------------------------------------------- emit

fn clause_edit(at: usize, kw: &str, clauses: &[Clause], unit: &str, prio: i32, indent: &str) -> Vec<Edit> {
    // one edit per clause so that every clause owns its output lines
    let mut v = vec![];
    if clauses.is_empty() {
        return v;
    }
    v.push(Edit { start: at, end: at, rule: "SPLICE".into(), parts: vec![lit(&format!("\n{}{}\n", indent, kw))], origin: Some(format!("gen:{}", unit)), prio });
    for (k, c) in clauses.iter().enumerate() {
        v.push(Edit {
            start: at,
            end: at,
            rule: "SPLICE".into(),
            parts: vec![lit(&format!("{}    ({}),\n", indent, c.text))],
            origin: Some(format!("clause:{}:{}:{}", c.id, unit, c.vrs_line)),
            prio: prio + 1 + k as i32,
        });
    }
    v
}

fn apply_bound_map(t: &str, bm: &[(String, String)]) -> (String, Vec<(String, String)>) {
    let mut s = t.to_string();
    let mut used = vec![];
    for (o, n) in bm {
        if s.contains(o.as_str()) {
            s = s.replace(o.as_str(), n);
            used.push((o.clone(), n.clone()));
        }
    }
    (s, used)
}

fn norm_ws(s: &str) -> String {
    s.split_whitespace().collect::<Vec<_>>().join(" ")
}

/// Declared substitution patterns may contain identifier wildcards `$name` (so that a renamed local
/// or closure parameter does not lose the rewrite): a wildcard matches one maximal identifier, the
/// same name must match the same identifier everywhere, and `$name` in the replacement stands for
/// it. Returns (offset, matched length, bindings) of every non-overlapping match.
fn find_pattern(region: &str, pat: &str) -> Vec<(usize, usize, Vec<(String, String)>)> {
    // tokenise the pattern
    enum Tok { Lit(String), Var(String) }
    let mut toks: Vec<Tok> = vec![];
    let pb = pat.as_bytes();
    let mut i = 0;
    let mut cur = String::new();
    while i < pb.len() {
        if pb[i] == b'$' && i + 1 < pb.len() && (pb[i + 1].is_ascii_alphabetic() || pb[i + 1] == b'_') {
            let mut j = i + 1;
            while j < pb.len() && (pb[j].is_ascii_alphanumeric() || pb[j] == b'_') { j += 1; }
            if !cur.is_empty() { toks.push(Tok::Lit(std::mem::take(&mut cur))); }
            toks.push(Tok::Var(pat[i + 1..j].to_string()));
            i = j;
        } else {
            // patterns are ASCII in practice; keep multi-byte characters intact
            let ch = pat[i..].chars().next().unwrap();
            cur.push(ch);
            i += ch.len_utf8();
        }
    }
    if !cur.is_empty() { toks.push(Tok::Lit(cur)); }
    if toks.iter().all(|t| matches!(t, Tok::Lit(_))) {
        return region.match_indices(pat).map(|(i, _)| (i, pat.len(), vec![])).collect();
    }
    let rb = region.as_bytes();
    let is_id = |c: u8| c.is_ascii_alphanumeric() || c == b'_';
    let mut out = vec![];
    let mut start = 0;
    while start < rb.len() {
        if !region.is_char_boundary(start) { start += 1; continue; }
        let mut p = start;
        let mut binds: Vec<(String, String)> = vec![];
        let mut ok = true;
        for (ti, t) in toks.iter().enumerate() {
            match t {
                Tok::Lit(l) => {
                    if region[p..].starts_with(l.as_str()) { p += l.len(); } else { ok = false; break; }
                }
                Tok::Var(name) => {
                    // an identifier must start here (and not in the middle of one when the wildcard opens the pattern)
                    if ti == 0 && p > 0 && is_id(rb[p - 1]) { ok = false; break; }
                    let mut q = p;
                    while q < rb.len() && is_id(rb[q]) { q += 1; }
                    if q == p || rb[p].is_ascii_digit() { ok = false; break; }
                    let id = &region[p..q];
                    match binds.iter().find(|(k, _)| k == name) {
                        Some((_, v)) => { if v != id { ok = false; break; } }
                        None => binds.push((name.clone(), id.to_string())),
                    }
                    p = q;
                }
            }
        }
        if ok && p > start {
            out.push((start, p - start, binds));
            start = p;
        } else {
            start += 1;
        }
    }
    out
}

/// local binders of a function body in source order (rule RN)
fn collect_binders(block: &syn::Block) -> Vec<String> {
    struct B(Vec<String>);
    impl<'ast> Visit<'ast> for B {
        fn visit_pat_ident(&mut self, p: &'ast syn::PatIdent) {
            self.0.push(p.ident.to_string());
            visit::visit_pat_ident(self, p);
        }
    }
    let mut b = B(vec![]);
    b.visit_block(block);
    b.0
}

fn rename_tokens(text: &str, map: &[(String, String)]) -> String {
    let b = text.as_bytes();
    let is_id = |c: u8| c.is_ascii_alphanumeric() || c == b'_';
    let mut out = String::with_capacity(text.len());
    let mut i = 0;
    while i < b.len() {
        if is_id(b[i]) && !b[i].is_ascii_digit() && (i == 0 || !is_id(b[i - 1])) {
            let mut j = i;
            while j < b.len() && is_id(b[j]) { j += 1; }
            let tok = &text[i..j];
            // not a field / method name (`x.left`), not a path segment (`a::left`)
            let after_dot = i > 0 && (b[i - 1] == b'.' || (i > 1 && b[i - 1] == b':' && b[i - 2] == b':'));
            match map.iter().find(|(o, _)| o == tok) {
                Some((_, n)) if !after_dot => out.push_str(n),
                _ => out.push_str(tok),
            }
            i = j;
        } else {
            let ch = text[i..].chars().next().unwrap();
            out.push(ch);
            i += ch.len_utf8();
        }
    }
    out
}

fn apply_renames(fd: &FnDir, map: &[(String, String)]) -> FnDir {
    let mut n = fd.clone();
    let rc = |v: &mut Vec<Clause>| for c in v.iter_mut() { c.text = rename_tokens(&c.text, map); };
    rc(&mut n.requires);
    rc(&mut n.exits_ok);
    rc(&mut n.ensures);
    rc(&mut n.decreases);
    for (_, l) in n.loops.iter_mut() {
        rc(&mut l.invariant);
        rc(&mut l.invariant_except_break);
        rc(&mut l.ensures);
        rc(&mut l.decreases);
    }
    for a in n.ats.iter_mut() {
        a.text = rename_tokens(&a.text, map);
        a.pos = rename_tokens(&a.pos, map);
    }
    for sb in n.substs.iter_mut() {
        if sb.0.starts_with("body") {
            sb.1 = rename_tokens(&sb.1, map);
            sb.2 = rename_tokens(&sb.2, map);
        }
    }
    n
}

/// `x = x + e;` read as `x += e;` (anchor patterns are written against the compound form)
fn compound_form(stmt: &str) -> Option<String> {
    let t = stmt.trim().trim_end_matches(';').trim();
    let (lhs, rhs) = t.split_once(" = ")?;
    let lhs = lhs.trim();
    let rest = rhs.trim().strip_prefix(lhs)?.trim_start();
    let op = rest.chars().next()?;
    if !"+-*/|&^".contains(op) {
        return None;
    }
    let e = rest[1..].trim();
    if e.is_empty() || e.starts_with('=') {
        return None;
    }
    Some(format!("{} {}= {};", lhs, op, e))
}

fn main() {
    let args: Vec<String> = std::env::args().collect();
    if args.len() != 5 {
        bail!("usage: xtract <snapshot> <unit.vrs> <out.rs> <out.manifest.json>");
    }
    let (root, unit, out_rs, out_manifest) = (&args[1], &args[2], &args[3], &args[4]);
    let unit_name = std::path::Path::new(unit).file_name().unwrap().to_string_lossy().to_string();
    let (mut pieces, bound_map) = parse_unit(unit);
    // constants the changed code introduced (the driver saw `cannot find value NAME` in extracted code):
    // copied verbatim like any `//@ item`, placed before the closing brace of the verus! block
    // helper functions the changed code introduced (the driver saw `cannot find function NAME`): extracted
    // like any `//@ fn`, without a contract (callers learn nothing about them; the driver treats failures
    // in their callers as weak)
    if let Ok(extra) = std::env::var("XTRACT_EXTRA_FNS") {
        let at = pieces.iter().rposition(|p| matches!(p, Piece::Prelude(_, _, l) if l.trim_start().starts_with("} // verus!"))).unwrap_or(pieces.len());
        for (k, a) in extra.split(',').filter(|a| !a.is_empty()).enumerate() {
            pieces.insert(at + k, Piece::Func(FnDir { anchor: a.to_string(), vrs_line: 0, auto: true, ..Default::default() }));
        }
    }
    if let Ok(extra) = std::env::var("XTRACT_EXTRA_ITEMS") {
        let at = pieces.iter().rposition(|p| matches!(p, Piece::Prelude(_, _, l) if l.trim_start().starts_with("} // verus!"))).unwrap_or(pieces.len());
        for (k, a) in extra.split(',').filter(|a| !a.is_empty()).enumerate() {
            pieces.insert(at + k, Piece::Item(0, a.to_string()));
        }
    }
    let mut srcs: HashMap<String, Src> = HashMap::new();
    let mut out = Out { text: String::new(), marks: vec![], log: vec![], next_id: 0 };
    let mut functions: Vec<Value> = vec![];
    let mut expects: Vec<Value> = vec![];
    let mut clauses_json: Vec<Value> = vec![];

    let mut emitted: std::collections::HashSet<String> = std::collections::HashSet::new();
    for piece in &pieces {
        // a type extracted by one prelude is not extracted again by another
        match piece {
            Piece::Struct(_, a) | Piece::Item(_, a) => {
                if !emitted.insert(a.clone()) {
                    continue;
                }
            }
            _ => {}
        }
        match piece {
            Piece::Prelude(f, ln, l) => {
                out.mark(format!("vrs:{}:{}", f, ln));
                out.text.push_str(l);
                out.text.push('\n');
            }
            Piece::Item(ln, anchor) => {
                let (file, path) = anchor.split_once("::").unwrap_or_else(|| bail!("line {}: bad anchor {}", ln, anchor));
                let src = srcs.entry(file.to_string()).or_insert_with(|| Src::load(root, file));
                emit_item(src, path, &bound_map, &mut out, &mut functions);
            }
            Piece::Struct(ln, anchor) => {
                let (file, path) = anchor.split_once("::").unwrap_or_else(|| bail!("line {}: bad anchor {}", ln, anchor));
                let src = srcs.entry(file.to_string()).or_insert_with(|| Src::load(root, file));
                emit_struct(src, path, &bound_map, &mut out, &mut functions);
            }
            Piece::Expect(ln, file, text) => {
                let src = srcs.entry(file.to_string()).or_insert_with(|| Src::load(root, file));
                if !norm_ws(&src.text).contains(&norm_ws(text)) {
                    bail!("lost anchor in {}: expected text (unit line {}) not found: {}", file, ln, text);
                }
                expects.push(json!({"file": file, "text": text, "vrs_line": ln}));
            }
            Piece::ExpectImpl(ln, file, head, methods) => {
                let src = srcs.entry(file.to_string()).or_insert_with(|| Src::load(root, file));
                let (want_trait, want_type) = head.split_once(" for ").unwrap_or_else(|| bail!("line {}: expect-impl head must be `Trait for Type`", ln));
                let mut found: Option<Vec<String>> = None;
                fn walk(items: &[syn::Item], want_trait: &str, want_type: &str, found: &mut Option<Vec<String>>) {
                    for it in items {
                        match it {
                            syn::Item::Impl(im) => {
                                let tr = im.trait_.as_ref().and_then(|(_, p, _)| p.segments.last().map(|s| s.ident.to_string()));
                                let ty = match &*im.self_ty {
                                    syn::Type::Path(tp) => tp.path.segments.last().map(|s| s.ident.to_string()),
                                    _ => None,
                                };
                                if tr.as_deref() == Some(want_trait) && ty.as_deref() == Some(want_type) {
                                    let ms: Vec<String> = im.items.iter().filter_map(|x| if let syn::ImplItem::Fn(f) = x { Some(f.sig.ident.to_string()) } else { None }).collect();
                                    match found {
                                        Some(v) => v.extend(ms),
                                        None => *found = Some(ms),
                                    }
                                }
                            }
                            syn::Item::Mod(m) => {
                                if let Some((_, its)) = &m.content {
                                    walk(its, want_trait, want_type, found)
                                }
                            }
                            _ => {}
                        }
                    }
                }
                walk(&src.file.items, want_trait.trim(), want_type.trim(), &mut found);
                let mut have = found.unwrap_or_else(|| bail!("lost anchor in {}: impl {} (unit line {}) not found", file, head, ln));
                have.sort();
                let mut want = methods.clone();
                want.sort();
                if have != want {
                    bail!("lost anchor in {}: impl {} defines methods {:?}, the contracts expect exactly {:?} (a method that overrides a trait default is code outside the contracts)", file, head, have, want);
                }
                expects.push(json!({"file": file, "text": format!("impl {} {{ {} }}", head, want.join(", ")), "vrs_line": ln}));
            }
            Piece::Import(ln, ufile, anchor) => {
                let saved = INCLUDED.with(|s| s.borrow().clone());
                INCLUDED.with(|s| s.borrow_mut().clear());
                let (p2, _) = parse_unit(ufile);
                INCLUDED.with(|s| *s.borrow_mut() = saved);
                let mut found: Option<FnDir> = None;
                for p in p2 {
                    if let Piece::Func(fd) = p {
                        if &fd.anchor == anchor {
                            found = Some(fd);
                        }
                    }
                }
                let mut fd = found.unwrap_or_else(|| bail!("line {}: import: {} has no //@ fn {}", ln, ufile, anchor));
                fd.imported_from = Some(std::path::Path::new(ufile).file_name().unwrap().to_string_lossy().to_string());
                fd.ats.clear();
                fd.loops.clear();
                let (file, path) = fd.anchor.split_once("::").unwrap_or_else(|| bail!("bad anchor {}", fd.anchor));
                let src = srcs.entry(file.to_string()).or_insert_with(|| Src::load(root, file));
                let un = fd.imported_from.clone().unwrap();
                emit_fn(src, path, &fd, &bound_map, &un, &mut out, &mut functions, &mut clauses_json);
            }
            Piece::Func(fd) => {
                let (file, path) = fd.anchor.split_once("::").unwrap_or_else(|| bail!("line {}: bad anchor {}", fd.vrs_line, fd.anchor));
                let src = srcs.entry(file.to_string()).or_insert_with(|| Src::load(root, file));
                emit_fn(src, path, fd, &bound_map, &unit_name, &mut out, &mut functions, &mut clauses_json);
            }
        }
    }

    // line map
    let mut line_origin: Vec<String> = vec![];
    {
        let bytes = out.text.as_bytes();
        let mut mi = 0;
        let mut cur = String::from("gen");
        let mut line_start = true;
        let mut this: Option<String> = None;
        let mut in_comment = false;
        for (i, b) in bytes.iter().enumerate() {
            while mi < out.marks.len() && out.marks[mi].0 <= i {
                cur = out.marks[mi].1.clone();
                mi += 1;
            }
            // extractor markers (/*[n*/ ... /*n]*/) do not decide where a line comes from
            if !in_comment && *b == b'/' && i + 1 < bytes.len() && bytes[i + 1] == b'*' {
                in_comment = true;
            }
            let was_comment = in_comment;
            if in_comment && *b == b'/' && i >= 1 && bytes[i - 1] == b'*' && i >= 3 {
                in_comment = false;
            }
            if line_start && !was_comment && !(*b as char).is_whitespace() {
                this = Some(cur.clone());
                line_start = false;
            }
            if *b == b'\n' {
                line_origin.push(this.take().unwrap_or_else(|| cur.clone()));
                line_start = true;
            }
        }
        line_origin.push(this.take().unwrap_or(cur));
    }
    std::fs::write(out_rs, &out.text).unwrap_or_else(|e| bail!("write {}: {}", out_rs, e));
    let manifest = json!({
        "unit": unit_name,
        "functions": functions,
        "clauses": clauses_json,
        "edits": out.log,
        "line_origin": line_origin,
        "bound_map": bound_map,
        "expects": expects,
    });
    std::fs::write(out_manifest, serde_json::to_string(&manifest).unwrap()).unwrap();
}

fn emit_item(src: &Src, name: &str, bm: &[(String, String)], out: &mut Out, functions: &mut Vec<Value>) {
    // enums and consts: copied verbatim from the first token after the attributes
    let mut found: Option<(usize, usize)> = None;
    // generics of an enum (R1: trait bounds mapped like everywhere else)
    let mut generics: Option<(usize, usize)> = None;
    fn gen_of(src: &Src, items: &[syn::Item], name: &str, g: &mut Option<(usize, usize)>) {
        for it in items {
            match it {
                syn::Item::Enum(e) if e.ident == name && e.generics.lt_token.is_some() => *g = Some(src.range(e.generics.span())),
                syn::Item::Mod(m) => {
                    if let Some((_, its)) = &m.content {
                        gen_of(src, its, name, g)
                    }
                }
                _ => {}
            }
        }
    }
    gen_of(src, &src.file.items, name, &mut generics);
    fn walk(src: &Src, items: &[syn::Item], name: &str, found: &mut Option<(usize, usize)>) {
        for it in items {
            match it {
                syn::Item::Enum(e) if e.ident == name => {
                    let whole = src.range(e.span());
                    let start = match &e.vis {
                        syn::Visibility::Inherited => src.range(e.enum_token.span()).0,
                        v => src.range(v.span()).0,
                    };
                    *found = Some((start, whole.1));
                }
                syn::Item::Const(c) if c.ident == name => {
                    let whole = src.range(c.span());
                    let start = match &c.vis {
                        syn::Visibility::Inherited => src.range(c.const_token.span()).0,
                        v => src.range(v.span()).0,
                    };
                    *found = Some((start, whole.1));
                }
                syn::Item::Mod(m) => {
                    if let Some((_, its)) = &m.content {
                        walk(src, its, name, found)
                    }
                }
                _ => {}
            }
        }
    }
    walk(src, &src.file.items, name, &mut found);
    let (start, end) = found.unwrap_or_else(|| bail!("lost anchor: item {}::{}", src.rel, name));
    let k = out.next_id;
    out.next_id += 1;
    let _ = write!(out.text, "/*{{item:{}*/", k);
    let mut edits: Vec<Edit> = vec![];
    let head = &src.text[start..];
    if !head.starts_with("pub ") && !head.starts_with("pub(") {
        // RV: item visibility widened so that public specifications can name it
        edits.push(Edit { start, end: start, rule: "RV".into(), parts: vec![lit("pub ")], origin: None, prio: 0 });
    } else if head.starts_with("pub(") {
        let close = head.find(')').unwrap() + 1;
        edits.push(Edit { start, end: start + close, rule: "RV".into(), parts: vec![lit("pub")], origin: None, prio: 0 });
    }
    if let Some(g) = generics {
        let (n, used) = apply_bound_map(src.slice(g), bm);
        if !used.is_empty() {
            edits.push(Edit { start: g.0, end: g.1, rule: "R1".into(), parts: vec![lit(&n)], origin: None, prio: 0 });
        }
    }
    render(src, &edits, start, end, out, 0);
    let _ = writeln!(out.text, "/*item:{}}}*/", k);
    functions.push(json!({"kind": "item", "anchor": format!("{}::{}", src.rel, name), "file": src.rel, "item_id": k,
        "start": start, "end": end, "line": src.line_of(start), "text": &src.text[start..end]}));
}

fn emit_struct(src: &Src, name: &str, bm: &[(String, String)], out: &mut Out, functions: &mut Vec<Value>) {
    let mut found: Option<&syn::ItemStruct> = None;
    fn walk<'a>(items: &'a [syn::Item], name: &str, found: &mut Option<&'a syn::ItemStruct>) {
        for it in items {
            match it {
                syn::Item::Struct(s) if s.ident == name => *found = Some(s),
                syn::Item::Mod(m) => {
                    if let Some((_, its)) = &m.content {
                        walk(its, name, found)
                    }
                }
                _ => {}
            }
        }
    }
    walk(&src.file.items, name, &mut found);
    let st = found.unwrap_or_else(|| bail!("lost anchor: struct {}::{}", src.rel, name));
    let whole = src.range(st.span());
    let kw = src.range(st.struct_token.span());
    let start = match &st.vis {
        syn::Visibility::Inherited => kw.0,
        v => src.range(v.span()).0,
    };
    let mut edits: Vec<Edit> = vec![];
    // generics bounds
    if st.generics.lt_token.is_some() {
        let g = src.range(st.generics.span());
        let (n, used) = apply_bound_map(src.slice(g), bm);
        if !used.is_empty() {
            edits.push(Edit { start: g.0, end: g.1, rule: "R1".into(), parts: vec![lit(&n)], origin: None, prio: 0 });
        }
    }
    for f in st.fields.iter() {
        match cfg_verdict(&f.attrs) {
            Some(false) => {
                // drop the field including a following comma
                let r = src.range(f.span());
                let mut e = r.1;
                let rest = &src.text[e..];
                if let Some(k) = rest.find(',') {
                    if rest[..k].trim().is_empty() {
                        e += k + 1;
                    }
                }
                edits.push(Edit { start: r.0, end: e, rule: "R2".into(), parts: vec![], origin: None, prio: 0 });
                continue;
            }
            _ => {}
        }
        // RV: field visibility widened to `pub` so that specifications can name the field
        match &f.vis {
            syn::Visibility::Inherited => {
                let at = match (&f.ident, &f.ty) {
                    (Some(id), _) => src.range(id.span()).0,
                    (None, ty) => src.range(ty.span()).0,
                };
                edits.push(Edit { start: at, end: at, rule: "RV".into(), parts: vec![lit("pub ")], origin: None, prio: 0 });
            }
            syn::Visibility::Restricted(v) => {
                let r = src.range(v.span());
                edits.push(Edit { start: r.0, end: r.1, rule: "RV".into(), parts: vec![lit("pub")], origin: None, prio: 0 });
            }
            syn::Visibility::Public(_) => {}
        }
        for a in &f.attrs {
            let r = src.range(a.span());
            let rule = if a.path().is_ident("cfg") { "R2" } else { "ATTR" };
            edits.push(Edit { start: r.0, end: r.1, rule: rule.into(), parts: vec![], origin: None, prio: 0 });
        }
    }
    {
        let head = &src.text[start..];
        if !head.starts_with("pub ") && !head.starts_with("pub(") {
            edits.push(Edit { start, end: start, rule: "RV".into(), parts: vec![lit("pub ")], origin: None, prio: 0 });
        } else if head.starts_with("pub(") {
            let close = head.find(')').unwrap() + 1;
            edits.push(Edit { start, end: start + close, rule: "RV".into(), parts: vec![lit("pub")], origin: None, prio: 0 });
        }
    }
    let k = out.next_id;
    let _ = write!(out.text, "/*{{item:{}*/", k);
    out.next_id += 1;
    render(src, &edits, start, whole.1, out, 0);
    let _ = writeln!(out.text, "/*item:{}}}*/", k);
    functions.push(json!({"kind": "struct", "anchor": format!("{}::{}", src.rel, name), "file": src.rel, "item_id": k,
        "start": start, "end": whole.1, "line": src.line_of(start), "text": &src.text[start..whole.1]}));
}

#[allow(clippy::too_many_arguments)]
fn emit_fn(src: &Src, path: &str, fd: &FnDir, bm: &[(String, String)], unit: &str, out: &mut Out, functions: &mut Vec<Value>, clauses_json: &mut Vec<Value>) {
    let segs: Vec<&str> = path.split("::").collect();
    let found = find_fn(src, &segs);
    let (sig, block, vis, impl_hdr): (&syn::Signature, &syn::Block, Option<&syn::Visibility>, Option<String>) = match &found {
        Found::Free(f) => (&f.sig, &*f.block, Some(&f.vis), None),
        Found::Method(im, f) => {
            // R1: impl header; trait impls become inherent
            let mut h = String::from("impl");
            if im.generics.lt_token.is_some() {
                let (g, _) = apply_bound_map(src.slice(src.range(im.generics.span())), bm);
                // syn's generics span excludes the where clause
                h.push_str(&g);
            }
            h.push(' ');
            h.push_str(src.slice(src.range(im.self_ty.span())));
            if let Some(w) = &im.generics.where_clause {
                let (wt, _) = apply_bound_map(src.slice(src.range(w.span())), bm);
                h.push(' ');
                h.push_str(&norm_ws(&wt));
            }
            (&f.sig, &f.block, Some(&f.vis), Some(h))
        }
        Found::TraitDefault(_tr, f) => (&f.sig, f.default.as_ref().unwrap(), None, Some(String::from("trait-default"))),
        Found::MacroFn(f) => {
            let t = fd.for_type.clone().unwrap_or_else(|| bail!("unit line {}: a macro!.. anchor needs `//@ for-type <Type>`", fd.vrs_line));
            (&f.sig, &f.block, Some(&f.vis), Some(format!("impl {}", t)))
        }
    };

    // ---- rule RN: follow a pure renaming of locals
    let cur_binders = collect_binders(block);
    if std::env::var("XTRACT_PRINT_BINDERS").is_ok() {
        eprintln!("BINDERS {}::{} {}", src.rel, path, cur_binders.join(" "));
    }
    let mut local_renames: Vec<(String, String)> = vec![];
    let mut heuristic_renames = false;
    if let Some(old) = &fd.binders {
        if old.len() == cur_binders.len() {
            let mut ok = true;
            for (o, c) in old.iter().zip(cur_binders.iter()) {
                match local_renames.iter().find(|(a, _)| a == o) {
                    Some((_, b)) => { if b != c { ok = false; } }
                    None => local_renames.push((o.clone(), c.clone())),
                }
            }
            // injective, and nothing renamed onto a name that another binder keeps
            for (i, (_, b)) in local_renames.iter().enumerate() {
                if local_renames.iter().enumerate().any(|(j, (_, b2))| j != i && b2 == b) { ok = false; }
            }
            local_renames.retain(|(a, b)| a != b);
            // a binder that shadows a parameter of the same name: contract text may mean either, leave it
            let params: Vec<String> = sig.inputs.iter().filter_map(|a| match a {
                syn::FnArg::Typed(pt) => match &*pt.pat { syn::Pat::Ident(pi) => Some(pi.ident.to_string()), _ => None },
                _ => None,
            }).collect();
            local_renames.retain(|(a, _)| !params.contains(a));
            if !ok { local_renames.clear(); }
        } else {
            // RN (heuristic form): binders were added or removed as well. Align the two lists on the names they
            // share; inside each gap, forget contract-side binders that no spliced text mentions, then pair what is
            // left position by position. The result is only a GUESS: the function is verified with it, but a failing
            // obligation there is treated like one whose hints were dropped (weak: needs a failing input to count).
            let mut mentioned_text = String::new();
            for c in fd.requires.iter().chain(fd.ensures.iter()).chain(fd.decreases.iter()).chain(fd.exits_ok.iter()) { mentioned_text.push_str(&c.text); mentioned_text.push('\n'); }
            for (_, l) in fd.loops.iter() { for c in l.invariant.iter().chain(l.invariant_except_break.iter()).chain(l.ensures.iter()).chain(l.decreases.iter()) { mentioned_text.push_str(&c.text); mentioned_text.push('\n'); } }
            for a in fd.ats.iter() { mentioned_text.push_str(&a.text); mentioned_text.push('\n'); mentioned_text.push_str(&a.pos); mentioned_text.push('\n'); }
            for sb in fd.substs.iter() { mentioned_text.push_str(&sb.1); mentioned_text.push('\n'); }
            let mentions = |name: &str| -> bool {
                let b = mentioned_text.as_bytes();
                let is_id = |c: u8| c.is_ascii_alphanumeric() || c == b'_';
                mentioned_text.match_indices(name).any(|(i, _)| (i == 0 || !is_id(b[i - 1])) && (i + name.len() >= b.len() || !is_id(b[i + name.len()])))
            };
            // LCS on equal names
            let (n, m) = (old.len(), cur_binders.len());
            let mut t = vec![vec![0usize; m + 1]; n + 1];
            for i in (0..n).rev() { for j in (0..m).rev() { t[i][j] = if old[i] == cur_binders[j] { t[i + 1][j + 1] + 1 } else { t[i + 1][j].max(t[i][j + 1]) }; } }
            let (mut i, mut j) = (0usize, 0usize);
            let mut ok = true;
            let mut gap_old: Vec<String> = vec![];
            let mut gap_cur: Vec<String> = vec![];
            let mut close_gap = |go: &mut Vec<String>, gc: &mut Vec<String>, out: &mut Vec<(String, String)>, ok: &mut bool| {
                let kept: Vec<String> = go.iter().filter(|x| mentions(x)).cloned().collect();
                if kept.len() == gc.len() { for (a, b) in kept.iter().zip(gc.iter()) { out.push((a.clone(), b.clone())); } }
                else if !kept.is_empty() { *ok = false; }
                go.clear(); gc.clear();
            };
            while i < n || j < m {
                if i < n && j < m && old[i] == cur_binders[j] { close_gap(&mut gap_old, &mut gap_cur, &mut local_renames, &mut ok); i += 1; j += 1; }
                else if j < m && (i == n || t[i][j + 1] >= t[i + 1][j]) { gap_cur.push(cur_binders[j].clone()); j += 1; }
                else { gap_old.push(old[i].clone()); i += 1; }
            }
            close_gap(&mut gap_old, &mut gap_cur, &mut local_renames, &mut ok);
            for (k, (_, b)) in local_renames.iter().enumerate() {
                if local_renames.iter().enumerate().any(|(l, (_, b2))| l != k && b2 == b) { ok = false; }
                if old.contains(b) && cur_binders.contains(b) && !local_renames.iter().any(|(a, _)| a == b) { ok = false; }
            }
            local_renames.retain(|(a, b)| a != b);
            if !ok { local_renames.clear(); }
            heuristic_renames = ok;
        }
    }
    let fd_renamed;
    let fd: &FnDir = if local_renames.is_empty() { fd } else { fd_renamed = apply_renames(fd, &local_renames); &fd_renamed };

    let fn_start = match vis {
        Some(syn::Visibility::Inherited) | None => src.range(sig.span()).0,
        Some(v) => src.range(v.span()).0,
    };
    let body_open = src.range(block.brace_token.span.open());
    let body_close = src.range(block.brace_token.span.close());
    let fn_end = body_close.1;

    let mut edits: Vec<Edit> = vec![];
    let mut lost: Vec<String> = vec![];
    let mut lost_hints: Vec<Value> = vec![];

    // ---- signature
    // `mut self` receiver (R12)
    let mut rename_self = false;
    if let Some(syn::FnArg::Receiver(rc)) = sig.inputs.first() {
        if rc.reference.is_none() && rc.mutability.is_some() {
            let r = src.range(rc.span());
            edits.push(Edit { start: r.0, end: r.1, rule: "R12".into(), parts: vec![lit("self")], origin: None, prio: 0 });
            edits.push(Edit { start: body_open.1, end: body_open.1, rule: "R12".into(), parts: vec![lit(" let mut self_ = self;")], origin: None, prio: -100 });
            rename_self = true;
        }
    }
    // Drop::drop -> inherent drop_body (R1)
    if let Found::Method(im, _) = &found {
        let is_drop = im.trait_.as_ref().map(|t| t.1.segments.last().map(|s| s.ident == "Drop").unwrap_or(false)).unwrap_or(false);
        if is_drop && sig.ident == "drop" {
            let r = src.range(sig.ident.span());
            edits.push(Edit { start: r.0, end: r.1, rule: "R1".into(), parts: vec![lit("drop_body")], origin: None, prio: 0 });
        }
    }
    if let Some(nn) = &fd.rename {
        let r = src.range(sig.ident.span());
        edits.push(Edit { start: r.0, end: r.1, rule: "RENAME".into(), parts: vec![lit(nn)], origin: None, prio: 0 });
    }
    // generics / where clause bounds (R1)
    if sig.generics.lt_token.is_some() {
        let g = src.range(sig.generics.span());
        let (n, used) = apply_bound_map(src.slice(g), bm);
        if !used.is_empty() {
            edits.push(Edit { start: g.0, end: g.1, rule: "R1".into(), parts: vec![lit(&n)], origin: None, prio: 0 });
        }
    }
    if let Some(w) = &sig.generics.where_clause {
        let g = src.range(w.span());
        let (n, used) = apply_bound_map(src.slice(g), bm);
        if !used.is_empty() {
            edits.push(Edit { start: g.0, end: g.1, rule: "R1".into(), parts: vec![lit(&n)], origin: None, prio: 0 });
        }
    }
    // name the return value (R0)
    if let syn::ReturnType::Type(_, ty) = &sig.output {
        if !fd.no_return_name {
            let r = src.range(ty.span());
            edits.push(Edit { start: r.0, end: r.1, rule: "R0".into(), parts: vec![lit("(r: "), Part::Src(r.0, r.1), lit(")")], origin: None, prio: 0 });
        }
    }
    // contract clauses between signature and body
    let sig_end = {
        // insert right before the body's `{`, after a where clause if any
        body_open.0
    };
    edits.extend(clause_edit(sig_end, "requires", &fd.requires, unit, 10, "    "));
    edits.extend(clause_edit(sig_end, "ensures", &fd.ensures, unit, 1000, "    "));
    edits.extend(clause_edit(sig_end, "decreases", &fd.decreases, unit, 2000, "    "));

    let imported = fd.imported_from.is_some();
    // ---- body rules
    let mut rules = Rules { src, edits: vec![], stmts: vec![], loops: vec![], rename_self, unsupported: vec![], fmt_interp: fd.fmt_interp, fmt_items: vec![], arm_body_macro: false };
    if !imported {
        rules.visit_block(block);
    }
    let Rules { edits: body_edits, stmts, loops, unsupported, fmt_items, .. } = rules;
    edits.extend(body_edits);
    // ---- exits-ok: wrap the value of every `return` (outside closures) and the tail expression
    let mut exit_helpers = String::new();
    if !imported && !fd.exits_ok.is_empty() {
        struct Rets(Vec<(proc_macro2::Span, proc_macro2::Span)>);
        impl<'ast> Visit<'ast> for Rets {
            fn visit_expr_closure(&mut self, _c: &'ast syn::ExprClosure) {}
            fn visit_item(&mut self, _i: &'ast syn::Item) {}
            fn visit_expr_return(&mut self, r: &'ast syn::ExprReturn) {
                if let Some(e) = &r.expr {
                    self.0.push((e.span(), e.span()));
                }
                visit::visit_expr_return(self, r);
            }
        }
        let mut rets = Rets(vec![]);
        rets.visit_block(block);
        let mut sites: Vec<(usize, usize)> = rets.0.iter().map(|(a, _)| src.range(*a)).collect();
        if let Some(syn::Stmt::Expr(e, None)) = block.stmts.last() {
            sites.push(src.range(e.span()));
        }
        for (ci, c) in fd.exits_ok.iter().enumerate() {
            let hname = format!("exit_ok_{}_{}", out.next_id, ci);
            let _ = writeln!(exit_helpers, "// exits-ok [{}]: `r.is_ok() ==> condition` at every exit of the function below\nfn {}<T_, E_>(r: Result<T_, E_>, Ghost(c): Ghost<bool>) -> (o: Result<T_, E_>)\n    requires\n/*@exitreq:{}:{}*/        r.is_ok() ==> c,\n    ensures o == r\n{{ r }}", c.id, hname, c.id, c.vrs_line);
            for (a, b) in &sites {
                // `({ let ghost c_ = <condition>; helper(<expr>, Ghost(c_)) })` -- the parentheses keep Verus from
                // reading the block as a continuation of a preceding loop
                edits.push(Edit { start: *a, end: *a, rule: "EXIT".into(), parts: vec![lit(&format!("({{ let ghost c_ = {}; {}(", c.text, hname))], origin: Some(format!("check:{}:{}:{}", c.id, unit, c.vrs_line)), prio: -20 - ci as i32 });
                edits.push(Edit { start: *b, end: *b, rule: "EXIT".into(), parts: vec![lit(", Ghost(c_)) })")], origin: None, prio: 20 + ci as i32 });
            }
        }
    }
    if imported {
        // the callee is verified in its own unit; here only its contract is visible
        edits.push(Edit { start: body_open.0, end: fn_end, rule: "IMPORT".into(), parts: vec![lit("{ unimplemented!() }")], origin: None, prio: 0 });
    }

    // ---- loop clauses
    for (n, ld) in &fd.loops {
        match loops.get(*n) {
            None => lost.push(format!("loop {} (function has {} loops)", n, loops.len())),
            Some((open0, _open1, _close)) => {
                edits.extend(clause_edit(*open0, "invariant_except_break", &ld.invariant_except_break, unit, 10, "            "));
                edits.extend(clause_edit(*open0, "invariant", &ld.invariant, unit, 1000, "            "));
                edits.extend(clause_edit(*open0, "ensures", &ld.ensures, unit, 2000, "            "));
                edits.extend(clause_edit(*open0, "decreases", &ld.decreases, unit, 3000, "            "));
            }
        }
    }

    // ---- hints
    let tail_start = match block.stmts.last() {
        Some(syn::Stmt::Expr(e, None)) => src.range(e.span()).0,
        _ => body_close.0,
    };
    let mut hint_edits: Vec<Edit> = vec![];
    for (k, at) in fd.ats.iter().enumerate() {
        let words: Vec<&str> = at.pos.splitn(2, ' ').collect();
        let pos: Option<usize> = match words[0] {
            "entry" => Some(body_open.1),
            "exit" => Some(tail_start),
            "end" => Some(body_close.0),
            "loop" => {
                let w: Vec<&str> = at.pos.split_whitespace().collect();
                let n: usize = w.get(1).and_then(|x| x.parse().ok()).unwrap_or(usize::MAX);
                match (loops.get(n), w.get(2).copied()) {
                    (Some(l), Some("start")) => Some(l.1),
                    (Some(l), Some("end")) => Some(l.2),
                    _ => None,
                }
            }
            "before" | "after" => {
                let pat = words.get(1).map(|p| p.trim().trim_matches('"')).unwrap_or("");
                let (pat, nth) = match pat.rsplit_once("\" #") {
                    Some((p, n)) => (p, n.parse::<usize>().ok()),
                    None => (pat, None),
                };
                let pn = norm_ws(pat);
                // smallest statements whose normalised text contains the pattern
                let mut cands: Vec<(usize, usize)> = stmts.iter().copied().filter(|r| {
                    let t = norm_ws(src.slice(*r));
                    t.contains(&pn) || compound_form(&t).map(|c| c.contains(&pn)).unwrap_or(false)
                }).collect();
                let all = cands.clone();
                cands.retain(|a| !all.iter().any(|b| b != a && a.0 <= b.0 && b.1 <= a.1));
                cands.sort();
                cands.dedup();
                let pick = match nth {
                    Some(n) => cands.get(n).copied(),
                    None if cands.len() == 1 => Some(cands[0]),
                    None => None,
                };
                match pick {
                    Some(r) => {
                        if words[0] == "before" {
                            Some(r.0)
                        } else {
                            // after a trailing ';' if the statement span does not include it
                            let mut e = r.1;
                            let rest = &src.text[e..];
                            let t = rest.trim_start();
                            if t.starts_with(';') {
                                e += rest.len() - t.len() + 1;
                            }
                            Some(e)
                        }
                    }
                    None => {
                        if at.keep {
                            lost.push(format!("check {} (pattern matches {} statements)", at.pos, cands.len()));
                        } else {
                            lost_hints.push(json!({"fn": format!("{}::{}", src.rel, path), "at": at.pos, "clause": at.clause, "matches": cands.len(), "vrs_line": at.vrs_line}));
                        }
                        continue;
                    }
                }
            }
            _ => None,
        };
        match pos {
            Some(p) => (if at.keep { &mut edits } else { &mut hint_edits }).push(Edit {
                start: p,
                end: p,
                rule: "SPLICE".into(),
                parts: vec![lit(&format!("\n{}\n", at.text))],
                origin: Some(format!("{}:{}:{}:{}", if at.keep { "check" } else { "hint" }, if at.clause.is_empty() { "-" } else { &at.clause }, unit, at.vrs_line)),
                prio: if words[0] == "after" { -50 + k as i32 } else { 50 + k as i32 },
            }),
            None => {
                if at.keep {
                    lost.push(format!("check {}", at.pos));
                } else {
                    lost_hints.push(json!({"fn": format!("{}::{}", src.rel, path), "at": at.pos, "clause": at.clause, "matches": 0, "vrs_line": at.vrs_line}));
                }
            }
        }
    }

    // ---- declared textual substitutions (rule RS; must match exactly once)
    for (w, o, n) in &fd.substs {
        let all = w.ends_with('*');
        let (lo, hi) = if w.starts_with("sig") { (fn_start, body_open.0) } else { (body_open.0, fn_end) };
        let region = &src.text[lo..hi];
        let hits: Vec<(usize, usize, Vec<(String, String)>)> = find_pattern(region, o.as_str());
        if (all && hits.is_empty()) || (!all && hits.len() != 1) {
            // the construct this declared rewrite is about is no longer there (changed code): the
            // function is extracted without it and treated like one that lost a proof hint
            lost_hints.push(json!({"fn": format!("{}::{}", src.rel, path), "at": format!("subst {} {:?}", w, o), "clause": "", "matches": hits.len(), "vrs_line": fd.vrs_line}));
            continue;
        }
        for (h, len, binds) in hits {
            let s = lo + h;
            let mut repl = n.clone();
            for (k, v) in &binds {
                repl = repl.replace(&format!("${}", k), v);
            }
            edits.push(Edit { start: s, end: s + len, rule: "RS".into(), parts: vec![lit(&repl)], origin: None, prio: 0 });
        }
    }

    // the driver found that a hint of this function no longer compiles against the (changed) code
    // (e.g. it names a local that was renamed): second run with the hints of that function dropped
    if !hint_edits.is_empty() {
        if let Ok(forced) = std::env::var("XTRACT_DROP_HINTS") {
            let me = format!("{}::{}", src.rel, path);
            if forced.split(',').any(|f| f == me) {
                lost_hints.push(json!({"fn": me, "at": "all (a hint does not compile against the changed code)", "clause": "", "matches": 0, "vrs_line": fd.vrs_line}));
            }
        }
    }
    // the hints of a function are one proof script: if any of them cannot be re-attached to the
    // (changed) code, none is spliced; the contract itself stays
    if lost_hints.is_empty() {
        edits.extend(hint_edits);
    }

    // canary sites (vacuity guard): body entry and the end of every loop body
    if !imported {
    edits.push(Edit { start: body_open.1, end: body_open.1, rule: "MARK".into(), parts: vec![lit("/*@body*/")], origin: Some(format!("gen:{}", unit)), prio: -1000 });
    for l in &loops {
        edits.push(Edit { start: l.2, end: l.2, rule: "MARK".into(), parts: vec![lit("/*@loopend*/")], origin: Some(format!("gen:{}", unit)), prio: 100000 });
    }
    }

    if !lost.is_empty() {
        bail!("lost anchor in {}::{}: {}", src.rel, path, lost.join("; "));
    }
    if !unsupported.is_empty() {
        bail!("unsupported construct in {}::{}: {}", src.rel, path, unsupported.join("; "));
    }

    // ---- emit
    let k = out.next_id;
    out.next_id += 1;
    out.mark(format!("gen:{}:{}", unit, fd.vrs_line));
    for (n, code) in &fmt_items {
        if FMT_EMITTED.with(|s| s.borrow_mut().insert(n.clone())) {
            out.mark(format!("gen:{}:{}", unit, fd.vrs_line));
            out.text.push_str(code);
        }
    }
    if !exit_helpers.is_empty() {
        for line in exit_helpers.lines() {
            if let Some(rest) = line.strip_prefix("/*@exitreq:") {
                let (tag, code) = rest.split_once("*/").unwrap();
                let (cid, ln) = tag.rsplit_once(':').unwrap();
                out.mark(format!("clause:{}:{}:{}", cid, unit, ln));
                out.text.push_str(code);
                out.text.push('\n');
                out.mark(format!("gen:{}:{}", unit, fd.vrs_line));
            } else {
                out.text.push_str(line);
                out.text.push('\n');
            }
        }
    }
    let wrap = match &impl_hdr {
        Some(h) if h != "trait-default" => {
            let _ = writeln!(out.text, "{} {{", h);
            true
        }
        _ => false,
    };
    // every extracted function gets its own solver process: an earlier failure must not perturb
    // the search for a later function (observed: rlimit blow-up after an unrelated failure)
    if imported {
        let _ = writeln!(out.text, "#[verifier::external_body]");
    } else {
        let _ = writeln!(out.text, "#[verifier::spinoff_prover]");
    }
    for a in &fd.attrs {
        let _ = writeln!(out.text, "{}", a);
    }
    let _ = write!(out.text, "/*{{item:{}*/", k);
    render(src, &edits, fn_start, fn_end, out, 0);
    let _ = writeln!(out.text, "/*item:{}}}*/", k);
    if wrap {
        out.text.push_str("}\n");
    }
    functions.push(json!({"kind": if imported { "imported-contract" } else { "fn" }, "imported_from": fd.imported_from, "anchor": format!("{}::{}", src.rel, path), "file": src.rel, "item_id": k,
        "start": fn_start, "end": fn_end, "line": src.line_of(fn_start), "end_line": src.line_of(fn_end),
        "impl_header": impl_hdr, "text": &src.text[fn_start..fn_end],
        "loops": loops.len(), "statements": stmts.len(), "lost_hints": lost_hints,
        "auto": fd.auto,
        "heuristic_renames": heuristic_renames,
        "local_renames": local_renames.iter().map(|(a, b)| json!({"contract": a, "code": b})).collect::<Vec<_>>()}));
    if imported {
        return;
    }
    for (kind, cl) in [("requires", &fd.requires), ("ensures", &fd.ensures), ("decreases", &fd.decreases), ("exit-ok", &fd.exits_ok)] {
        for c in cl.iter() {
            clauses_json.push(json!({"id": c.id, "kind": kind, "fn": format!("{}::{}", src.rel, path), "text": c.text, "vrs_line": c.vrs_line}));
        }
    }
    if let Some(sid) = &fd.safety {
        clauses_json.push(json!({"id": sid, "kind": "safety", "fn": format!("{}::{}", src.rel, path), "text": "implicit obligations: no arithmetic overflow, index/slice out of bounds, failed unwrap, reachable panic!/assert!", "vrs_line": fd.vrs_line}));
    }
    for (n, ld) in &fd.loops {
        for (kind, cl) in [("invariant", &ld.invariant), ("invariant_except_break", &ld.invariant_except_break), ("loop-ensures", &ld.ensures), ("loop-decreases", &ld.decreases)] {
            for c in cl.iter() {
                clauses_json.push(json!({"id": c.id, "kind": kind, "loop": n, "fn": format!("{}::{}", src.rel, path), "text": c.text, "vrs_line": c.vrs_line}));
            }
        }
    }
}
