#!/bin/sh
# usage: try_tree.sh <tree> <tag> <property>... [-- ENV=VAL ...]
# Runs ./check <property> for each property against an existing (changed) tree; evidence and replays go to /tmp.
tree=$1; tag=$2; shift 2
props=""; while [ $# -gt 0 ] && [ "$1" != "--" ]; do props="$props $1"; shift; done
[ "$1" = "--" ] && shift
cd /verif
for p in $props; do
  env VERIF_REPO=$tree VERIF_SCRATCH=/tmp/msql-verif-scratch-$tag VERIF_EVIDENCE_DIR=/tmp/tree-evidence-$tag VERIF_REPLAY_DIR=/tmp/tree-replays-$tag "$@" ./check $p > /tmp/tree-$tag-$p.log 2>&1
  echo "$tag $p rc=$? $(grep -cE '^VIOLATION' /tmp/tree-$tag-$p.log) violations; $(grep -E 'UNDECIDED' /tmp/tree-$tag-$p.log | head -1 | cut -c1-300)"
done
