"""Native leg: bounded stand-ins and witness searches that run the REAL code natively on a stated
finite set of inputs (cargo test in a scratch copy, modules injected under cfg(verif_replay)).
Never counted as proved; reported under bounded_checks. Also used to find a concrete failing input
when a Verus obligation fails (no-failing-input-found otherwise)."""
import os
import time
import re

from common import VERIF, Undecided, offline_env, run
import kani_leg

NATIVE_DIR = os.path.join(VERIF, "native")


class NGroup(kani_leg.Group):
    def __init__(self, path):
        self.checks = {}
        super().__init__(path)
        for line in self.text.splitlines():
            if line.startswith("//@ check "):
                parts = line[3:].split()
                h = {}
                for kv in parts[2:]:
                    if "=" in kv:
                        k, v = kv.split("=", 1)
                        h[k] = v
                self.checks[parts[1]] = h

    @property
    def modname(self):
        return "verif_native_" + self.name


def load(name):
    return NGroup(os.path.join(NATIVE_DIR, name + ".rs"))


def strip_dev_deps(scratch):
    cargo = os.path.join(scratch, "Cargo.toml")
    out, keep = [], True
    for line in open(cargo).read().splitlines():
        if line.startswith("["):
            keep = "dev-dependencies" not in line
        if keep:
            out.append(line)
    open(cargo, "w").write("\n".join(out) + "\n")


def run_group(scratch, group, timeout=900, only=None):
    """Inject the module, run its #[test]s natively. Returns list of results per check."""
    p = os.path.join(scratch, group.inject)
    if not os.path.exists(p):
        raise Undecided("lost anchor: %s (inject target of native group %s)" % (group.inject, group.name))
    with open(p, "a") as f:
        f.write('\n#[cfg(verif_replay)]\n#[path = "%s"]\nmod %s;\n' % (group.path, group.modname))
    strip_dev_deps(scratch)
    # the replay target directory is shared between runs: make sure cargo never takes the crate's own
    # artifacts from an earlier tree at the same path for fresh (it compares mtimes, not contents)
    now = time.time()
    for root, _dirs, files in os.walk(os.path.join(scratch, "src")):
        for fn in files:
            try:
                os.utime(os.path.join(root, fn), (now, now))
            except OSError:
                pass
    env = offline_env({"CARGO_TARGET_DIR": kani_leg.REPLAY_TARGET, "RUSTFLAGS": "--cfg verif_replay -A warnings -C overflow-checks=on"})
    cmd = ["cargo", "test", "--offline", "--release", "--lib", group.modname + "::", "--", "--nocapture", "--test-threads", "1"]
    if only:
        # cargo test takes one filter before `--`; further filters go after it
        cmd = ["cargo", "test", "--offline", "--release", "--lib", "--"] + [group.modname + "::" + t for t in only] + ["--nocapture", "--test-threads", "1"]
    with kani_leg.target_lock("replay"):
        kani_leg.common_purge(kani_leg.REPLAY_TARGET, scratch)
        rc, so, se, wall = run(cmd, cwd=scratch, timeout=timeout, env=env)
    text = so + "\n" + se
    aborted = None
    hung = False
    if rc == -9:
        # killed after `timeout` seconds (many times what the group needs on the unchanged tree): the scenario that was
        # running did not terminate -- for code that must never wedge a connection that is a failed scenario, reported
        # like an aborted one. If nothing had started yet it is a tool problem.
        started = re.findall(r"^test (\S+) \.\.\. ?(ok|FAILED)?", text, re.M)
        running = [n for n, v in started if not v]
        if not running:
            raise Undecided("native group %s timed out before any scenario started" % group.name)
        aborted = running[-1].split("::")[-1]
        hung = True
    if "test result:" not in text and re.search(r"signal: 6|SIGABRT|process abort signal|panic in a destructor|panicked while panicking", text):
        # a panic inside a destructor (or while unwinding) aborts the whole test process: that IS a crash of the
        # code under test in the scenario that was running (the last test announced without a verdict)
        started = re.findall(r"^test (\S+) \.\.\. ?(ok|FAILED)?", text, re.M)
        running = [n for n, v in started if not v]
        aborted = running[-1].split("::")[-1] if running else None
    if aborted is None and "test result:" not in text:
        raise Undecided("native group %s did not run (build error?):\n%s" % (group.name, "\n".join(text.splitlines()[-30:])))
    results = []
    for name, meta in group.checks.items():
        if only and name not in only:
            continue
        ran = re.search(r"test \S*::%s \.\.\." % re.escape(name), text)
        failed = re.search(r"^    \S*::%s$" % re.escape(name), text, re.M) or re.search(r"\S*::%s \.\.\. FAILED" % re.escape(name), text)
        if aborted is not None:
            if name == aborted:
                pm = re.findall(r"panicked at [^\n]*\n([^\n]*)", text)
                results.append({"check": name, "group": group.name, "status": "FAILED", "clause": group.default_clause,
                                "message": ("the scenario did NOT TERMINATE: killed after %d s (the code under test loops forever or waits without end)" % int(wall)) if hung else
                                           "the test process ABORTED (panic inside a destructor / while unwinding) during this scenario: " + (pm[-1] if pm else "abort"),
                                "cases": 0, "nontrivial": 0, "meta": meta, "wall_s": wall})
            elif re.search(r"test \S*::%s \.\.\. ok" % re.escape(name), text):
                results.append({"check": name, "group": group.name, "status": "ok", "clause": None, "message": None,
                                "cases": 0, "nontrivial": 0, "meta": meta, "wall_s": wall})
            # scenarios that had not started yet are simply not reported
            continue
        if not ran:
            # the test did not run at all (stale artifact, filter mismatch, renamed harness): a tool
            # problem, never a verdict about the code
            raise Undecided("native check %s::%s did not run:\n%s" % (group.name, name, "\n".join(text.splitlines()[-15:])))
        status = "FAILED" if failed else "ok"
        msg = None
        clause = None
        if status != "ok":
            # the panic message of this test's own thread (caught panics of the code under test also print)
            pms = re.findall(r"thread '[^']*%s' [^\n]*panicked at [^\n]*\n([^\n]*)" % re.escape(name), text)
            tagged = [m_ for m_ in pms if kani_leg.CLAUSE_RE.search(m_)]
            msg = (tagged or pms or ["native check failed"])[-1]
            cm = kani_leg.CLAUSE_RE.search(msg or "")
            clause = cm.group(1) if cm else group.default_clause
        cases = re.search(r"VERIF-NATIVE %s cases=(\d+) nontrivial=(\d+)" % re.escape(name), text)
        results.append({"check": name, "group": group.name, "status": status, "message": msg, "clause": clause,
                        "cases": int(cases.group(1)) if cases else 0, "nontrivial": int(cases.group(2)) if cases else 0,
                        "meta": meta, "wall_s": wall})
    return {"results": results, "cmd": " ".join(cmd), "wall_s": wall}
