"""Shared plumbing for /verif/check: snapshots, subprocesses, known findings, evidence."""
import hashlib
import json
import os
import re
import shutil
import subprocess
import sys
import time

VERIF = os.path.dirname(os.path.dirname(os.path.abspath(__file__)))
REPO = os.environ.get("VERIF_REPO", "/repo")
SCRATCH_ROOT = os.environ.get("VERIF_SCRATCH", "/tmp/msql-verif-scratch")
CACHE = os.path.join(VERIF, ".cache")
KANI_TARGET = os.path.join(CACHE, "kani-target")
EVIDENCE_DIR = os.environ.get("VERIF_EVIDENCE_DIR", os.path.join(VERIF, "evidence"))
REPLAY_DIR = os.environ.get("VERIF_REPLAY_DIR", os.path.join(VERIF, "replays"))

EXIT_OK, EXIT_VIOLATION, EXIT_UNDECIDED = 0, 1, 2


class Undecided(Exception):
    """Tool/anchor failure: the run cannot decide the property (exit 2, never a VIOLATION)."""


def log(*a):
    print(*a, file=sys.stderr, flush=True)


def offline_env(extra=None):
    env = dict(os.environ)
    env["CARGO_NET_OFFLINE"] = "true"
    env.setdefault("GOPROXY", "off")
    env.setdefault("PIP_NO_INDEX", "1")
    if extra:
        env.update(extra)
    return env


def run(cmd, cwd=None, timeout=None, env=None, mem_gb=None):
    """Run cmd (list). Returns (rc, stdout, stderr, wall_s). rc == -9 on timeout."""
    t0 = time.time()
    pre = None
    if mem_gb:
        import resource

        def pre():
            lim = int(mem_gb * (1 << 30))
            resource.setrlimit(resource.RLIMIT_AS, (lim, lim))
    # own session: on a timeout the whole process group is killed (cargo's child -- a test binary spinning in an
    # endless loop of the code under test -- would otherwise survive its parent)
    proc = subprocess.Popen(cmd, cwd=cwd, env=env or offline_env(), stdout=subprocess.PIPE, stderr=subprocess.PIPE,
                            text=True, errors="replace", preexec_fn=pre, start_new_session=True)
    try:
        out, err = proc.communicate(timeout=timeout)
        return proc.returncode, out, err, time.time() - t0
    except subprocess.TimeoutExpired:
        import signal
        try:
            os.killpg(proc.pid, signal.SIGKILL)
        except OSError:
            proc.kill()
        try:
            out, err = proc.communicate(timeout=30)
        except Exception:
            out, err = "", ""
        return -9, out or "", err or "", time.time() - t0


def snapshot(tag):
    """rsync /repo's working tree (no target/, no .git) into a fresh scratch dir."""
    dst = os.path.join(SCRATCH_ROOT, tag)
    if os.path.exists(dst):
        shutil.rmtree(dst)
    os.makedirs(dst)
    rc, out, err, _ = run(["rsync", "-a", "--exclude", "/target", "--exclude", "/.git", REPO + "/", dst + "/"])
    if rc != 0:
        raise Undecided("snapshot failed: " + err)
    return dst


def cleanup(path):
    shutil.rmtree(path, ignore_errors=True)
    try:
        os.rmdir(SCRATCH_ROOT)
    except OSError:
        pass


def sha256(s):
    if isinstance(s, str):
        s = s.encode()
    return hashlib.sha256(s).hexdigest()


def repo_head():
    rc, out, _, _ = run(["git", "-C", REPO, "rev-parse", "HEAD"])
    rc2, st, _, _ = run(["git", "-C", REPO, "status", "--porcelain", "--untracked-files=no"])
    return out.strip() + ("+dirty" if st.strip() else "")


# ---------------------------------------------------------------- known findings

def load_known():
    with open(os.path.join(VERIF, "known_findings.json")) as f:
        return json.load(f)


def match_known(known, prop, failure):
    """failure: dict(clause, site, kind, harness/unit, function). An *open* entry matches when its
    property matches and every key it specifies equals the failure's value."""
    for k in known.get("open", []):
        if k["property"] != prop:
            continue
        m = k.get("match", {})
        if all((key.endswith("_contains") and str(val) in str(failure.get(key[:-9], ""))) or
               (not key.endswith("_contains") and str(failure.get(key, "")) == str(val))
               for key, val in m.items()):
            return k
    return None


def match_any_known(known, failure):
    """An open known finding of ANY property that this failure is an instance of."""
    for k in known.get("open", []):
        hit = match_known({"open": [k]}, k["property"], failure)
        if hit:
            return hit
    return None


# ---------------------------------------------------------------- evidence

def write_evidence(prop, tier, seed, coverage, assumptions, wall_s, violations, extra=None):
    os.makedirs(EVIDENCE_DIR, exist_ok=True)
    ev = {
        "property_id": prop,
        "tier": tier,
        "seed": seed,
        "level": "proof",
        "coverage": coverage,
        "assumptions": assumptions,
        "wall_s": round(wall_s, 2),
        "violations": violations,
    }
    if extra:
        ev.update(extra)
    path = os.path.join(EVIDENCE_DIR, prop + ".json")
    tmp = path + ".tmp"
    with open(tmp, "w") as f:
        json.dump(ev, f, indent=1, sort_keys=False)
        f.write("\n")
    os.replace(tmp, path)
    return path


def write_replay(prop, clause, payload):
    d = os.path.join(REPLAY_DIR, prop)
    os.makedirs(d, exist_ok=True)
    safe = "".join(ch if ch.isalnum() or ch in "._-" else "_" for ch in clause)[:120]
    path = os.path.join(d, safe + ".json")
    with open(path, "w") as f:
        json.dump(payload, f, indent=1)
        f.write("\n")
    return path


def purge_crate_artifacts(target_root, scratch):
    """Remove the artifacts of the crate under verification (not of its dependencies) from a shared
    cargo target directory. Cargo hashes path packages relative to their workspace root, so two scratch
    copies of different trees share fingerprints, and freshness is judged by the mtimes of the source
    files recorded at the *previous* build (possibly another, still existing scratch copy): without
    this a run can silently reuse a binary built from a different tree. Call with the target lock held."""
    name = None
    try:
        for line in open(os.path.join(scratch, "Cargo.toml")):
            m = re.match(r'\s*name\s*=\s*"([^"]+)"', line)
            if m:
                name = m.group(1)
                break
    except OSError:
        pass
    if not name:
        return 0
    dash, under = name, name.replace("-", "_")
    removed = 0
    for root, dirs, files in os.walk(target_root):
        base = os.path.basename(root)
        if base in (".fingerprint", "build", "incremental"):
            for d in list(dirs):
                if d.startswith(dash + "-") or d.startswith(under + "-") or d == dash:
                    shutil.rmtree(os.path.join(root, d), ignore_errors=True)
                    dirs.remove(d)
                    removed += 1
        elif base == "deps":
            for f in files:
                if f.startswith(under + "-") or f.startswith("lib" + under + "-") or f.startswith(dash + "-"):
                    try:
                        os.unlink(os.path.join(root, f))
                        removed += 1
                    except OSError:
                        pass
    return removed
