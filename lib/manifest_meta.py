"""Human-written parts of MANIFEST.json (claims, notes). gen_manifest.py assembles the file."""

HOOKS = {
    "guard": "kani / verif_replay (cfg names; set only by cargo-kani resp. by ./check --replay)",
    "enable": "no hook lives in /repo: ./check copies /repo's working tree to a scratch directory and appends `#[cfg(any(kani, verif_replay))] #[path=\"/verif/kani/<group>.rs\"] mod verif_kani_<group>;` lines to module files there; Verus units are extracted from the same snapshot by /verif/xtract",
    "baseline_off_cmd": "cd /repo && cargo test --workspace --no-fail-fast --offline",
    "source_commits": [],
    "add_only": True,
}

ENGINES = [
    {"name": "kani", "path": "/verif/kani", "kind_free_text": "Kani 0.68 / CBMC 6.11 assume-assert contract harnesses over the unmodified crate (scratch copy), full-domain symbolic inputs",
     "serves_properties": ["C15"]},
]

NOTES = ("Contract-based deductive verification. ./check <id> exits 0 (all obligations discharged), 1 (VIOLATION line) or 2 (undecided: tool failure/lost anchor; never a VIOLATION). "
         "Known findings: /verif/known_findings.json. Scratch copies live under /tmp/msql-verif-scratch and are removed by each run.")

CLAIMS = {
    "C15": {
        "engine": "kani",
        "technique": "Kani/CBMC contract harness per integer encoder, loop-free, full 8..64-bit symbolic domain (complete proof, counterexample replayed natively)",
        "design_ref": "DESIGN.md section 6 C15",
        "text": "Proof for all values, all column type codes and both signedness flags: for each of the ten Rust integer types and the generic Int/UInt values the real to_mysql_bin is executed symbolically by CBMC against the contract {Ok => exactly width bytes and little-endian decode == value; whole-type-fits => Ok; pointer-sized value fits => Ok; non-integer column => Err; Err => nothing written}. No bound: the harnesses are loop-free over full-width bit-vectors.",
        "note": "Trusted: CBMC/Kani's model of Rust and of byteorder's write_* on the sink; std::fmt::format stubbed (error message text only); the sink is a 16-byte all-or-nothing Write (the real sink is Vec<u8>).",
    },
}

NOT_APPLICABLE = {}
