"""Human-written parts of MANIFEST.json (claims, notes). gen_manifest.py assembles the file."""

HOOKS = {
    "guard": "kani / verif_replay (cfg names; set only by cargo-kani resp. by the native replay build of ./check)",
    "enable": "no hook lives in /repo: ./check copies /repo's working tree to a scratch directory and appends `#[cfg(any(kani, verif_replay))] #[path=\"/verif/kani/<group>.rs\"] mod verif_kani_<group>;` lines to module files there; Verus units are extracted from the same snapshot by /verif/xtract",
    "baseline_off_cmd": "cd /repo && cargo test --workspace --no-fail-fast --offline",
    "source_commits": [],
    "add_only": True,
}

ENGINES = [
    {"name": "verus", "path": "/verif/contracts",
     "kind_free_text": "Verus 0.2026.09.13 (z3) on single-file units whose function bodies are cut mechanically from /repo by /verif/xtract (syn) on every run; contracts, loop invariants and proof hints spliced from contracts/*.vrs; faithfulness re-checked by inverting every logged rewrite; assert(false) canaries guard against vacuity",
     "serves_properties": ["C01", "C02", "C03", "C04", "C05", "C06", "C07", "C08", "C09", "C10", "C11", "C12", "C13", "C14", "C16", "C17", "C18", "C19", "C20"]},
    {"name": "kani", "path": "/verif/kani",
     "kind_free_text": "Kani 0.68 / CBMC 6.11 assume-assert contract harnesses over the unmodified crate (scratch copy), full-domain symbolic inputs, lazy buffers of symbolic length up to 2^40; counterexamples replayed natively",
     "serves_properties": ["C01", "C02", "C04", "C05", "C06", "C07", "C08", "C09", "C11", "C12", "C13", "C14", "C15", "C17", "C18", "C20"]},
    {"name": "native-bounded", "path": "/verif/native",
     "kind_free_text": "bounded cross-check of the transcribed nom combinators behind packet() (n1_packet) and the witness search w_server: the real code run natively over a stated finite input set against an executable copy of the specification (labelled bounded, never counted as proved; the witness search only runs when a proof leg fails or is undecided, and in the thorough tier)",
     "serves_properties": ["C01", "C02", "C03", "C04", "C05", "C06", "C07", "C08", "C09", "C10", "C11", "C12", "C13", "C14", "C16", "C17", "C19", "C20"]},
]

NOTES = ("Contract-based deductive verification of the real code. ./check <id> exits 0 (all obligations discharged; KNOWN-FINDING lines allowed), "
         "1 (VIOLATION line) or 2 (undecided: tool failure / lost anchor / resource limit; never a VIOLATION). "
         "Known findings: /verif/known_findings.json. Scratch copies live under /tmp/msql-verif-scratch and are removed by each run. "
         "Seeded property-breaking changes used to test the checks: /verif/seeded/. "
         "Every check also verifies the Verus units of the other properties as watch-only auxiliaries and, when any proof leg fails or is "
         "undecided, runs a bounded witness search (native/w_server.rs) for a concrete failing conversation; the witness search never decides "
         "a property on a tree whose obligations are all discharged. Attribution follows the call graph ('rests-on closure'): every clause of every "
         "function under contract that a property's own functions call, transitively, counts for that property, whatever property's name the clause "
         "carries (evidence key rests_on). The thorough tier adds the witness scenarios as labelled bounded checks "
         "and re-runs the check against the seeded changes of its property (machinery self-test).")

V = "Verus proof on text extracted from /repo each run"
K = "Kani/CBMC contract harness, full-domain symbolic"

CLAIMS = {
    "C01": {
        "engine": "verus+kani",
        "technique": V + " (PacketConn::next: postcondition over every partition of the byte stream, loop invariant, termination) + " + K + " (fullpacket/onepacket, real constant, length <= 2^40) + Verus proof of packet() (real closures; nom's map/pair/fold_many0 nest transcribed and verified, unit U7)",
        "design_ref": "DESIGN.md section 6 C01",
        "text": "PacketConn::next is proved against unframe(pending): Ok(Some) returns exactly the next framed message and advances pending by exactly its length, Ok(None) only on an empty stream, Err only on a transport fault, a truncated stream or out-of-order fragment ids; because Transport::read's contract lets every call return any n <= available, this holds for every chunking. fullpacket/onepacket are proved by CBMC with the real 0xFFFFFF constant for inputs of symbolic length. packet() -- the fold over any number of maximal fragments plus the final short one -- is proved in Verus (unit U7) to return exactly unframe(input): the concatenated payload, the last fragment's id, the exact consumed length, and the 'ids consecutive modulo 256' flag; its two closures are the real text of /repo. The hub hands exactly that packet to commands::parse (U5).",
        "note": "nom's combinators map/pair/fold_many0 are not readable by Verus: their composition is TRANSCRIBED from the nom 7.1.3 sources into one function (contracts/prelude/nomfold.vrs), which is verified, and packet()'s call is flattened onto it by declared substitutions; trusted: that the transcription matches nom -- cross-checked (bounded) by the native enumeration N1 that runs the real packet() on real-size fragments (0..=3 full fragments x 4 final lengths x 8 id patterns x truncation points). Assumed: Transport contract (std Read/Write semantics), Vec length <= isize::MAX, vec_drain_prefix/vec_tail_mut helper specs, SwitchableConn behaves as a Transport.",
    },
    "C02": {
        "engine": "verus+kani",
        "technique": V + " (run: per-iteration assertion shim.log == log0 + dispatch(cmd) for all nine arms) + " + K + " (commands::parse == command table, payload length symbolic <= 2^40)",
        "design_ref": "DESIGN.md section 6 C02",
        "text": "commands::parse is proved equal to the protocol's command table for every payload (variant, slices by pointer and length, little-endian ids, Err for unknown/empty/truncated). The real run loop is proved to append to the ghost shim log exactly dispatch(cmd): one callback per shim-bound command with the verbatim payload slice, none for PING/FIELD_LIST/SELECT @@/QUIT/SEND_LONG_DATA, USE -> on_init(bare(..)), non-UTF-8 text -> Err before any callback.",
        "note": "Includes C01: the check also runs the inbound reassembly obligations (U1 next, K1 fullpacket/onepacket, U7 packet() with bounded N1 as cross-check of the transcribed nom combinators) and counts their clauses as its own -- a command that is not reassembled exactly does not reach its callback verbatim. Assumed: str::from_utf8 (uninterpreted validity predicate), the `USE` name trimming chain trim/trim_end_matches/trim_matches (uninterpreted function `bare`; std's str methods are not verified), <[u8]>::starts_with and byte-string match (helper specs), the ghost-shim model (each callback logs exactly its arguments).",
    },
    "C03": {
        "engine": "verus",
        "technique": V + ": equational strongest postconditions on every writer method (sent' == sent + owed terminator + payloads), typestate invariant of RowWriter with exists/forall ghost trace, hub replies",
        "design_ref": "DESIGN.md section 6 C03",
        "text": "Every method of InitWriter, StatementMetaWriter, QueryResultWriter and RowWriter (write_row for Vec / slice / iter::Once row arguments) is proved to extend the packet list by exactly the packets the grammar prescribes: remembered terminator with MORE set on start/complete_one/error and clear on no_more_results/finish, header = count+coldefs+EOF, one packet per ended row, OK(rows) for zero-column sets, shape errors (too few / too many columns) return Err with nothing sent. The hub is proved to answer PING/FIELD_LIST/SELECT @@ itself, to write nothing for CLOSE/SEND_LONG_DATA/QUIT, and to flush at a packet boundary after every command. The default on_init replies OK.",
        "note": "Includes C04/C05 (U1 framing machine clauses count: a mis-framed or mis-numbered response is not conformant). The induction over arbitrary writer-API programs rests on Rust's ownership discipline (each program is a chain of the proved methods); the composition of the per-method equations into the response grammar is argued in DESIGN.md, not mechanised. RowWriter::write_row is proved for the row-argument types the crate and its tests use (rule R8: the generic IntoIterator parameter is replaced by a trait with a ghost item list; other iterator adapters are outside the proof). A destructor must not return normally after a new transport fault ([C19.drop.*.nomask]); A shim that returns Ok without using its writer, or that ignores a writer error, is outside the contract. Drop bodies: known findings D10 (C19).",
    },
    "C04": {
        "engine": "verus",
        "technique": V + ": PacketConn::{write, maybe_end_packet, end_packet, flush} refine an abstract framing machine (step_write/step_end) defined from the property; lemmas fold the machine to frame(m) for any chunking; unframe(frame(m)) == m",
        "design_ref": "DESIGN.md section 6 C04",
        "text": "For every buffer and every state the real write/end_packet/flush bodies are proved to implement step_write/step_end exactly (header length == payload length, split at 0xFFFFFF payload bytes, empty terminator after an exact multiple, sequence id per packet); std's write_all loop (transcribed) is proved against write's contract; pure lemmas show that any sequence of writes followed by end puts frame(message) on the wire and that a client-side unframe recovers the message.",
        "note": "Also counts [C07.row.packet] (RowWriter::end_row hands the whole buffered row to the connection: 'a row larger than 16 MiB arrives intact'). Assumed: Transport::write_all appends exactly the buffer (std Write semantics), byteorder::LittleEndian::write_u24 (checked by Kani k6_byteorder_le), std's write_all transcription matches the installed std.",
    },
    "C05": {
        "engine": "verus+kani",
        "technique": V + " (seq is part of the framing machine: each emitted packet carries seq and seq' = seq+1 mod 256; hub sets seq = request id + 1 before any write) + " + K + "/bounded native (packet returns the last fragment's id)",
        "design_ref": "DESIGN.md section 6 C05",
        "text": "PacketConn::new starts at 0; maybe_end_packet stamps the current id and advances it with wrapping_add (proved as part of step_end); run and init are proved to call set_seq(wrap1(request id)) before any reply byte is written (arithmetic overflow obligations discharged); responses of any number of packets therefore carry consecutive ids modulo 256 by the C04 frame lemma.",
        "note": "packet()'s 'id of the last fragment' is proved in Verus unit U7 ([C05.packet.lastseq]) over the transcribed nom combinators (trusted to match nom; bounded native cross-check N1). Same trusted base as C04.",
    },
    "C06": {
        "engine": "verus+kani",
        "technique": K + " (mysql_common write_lenenc_int/str for all u64 / all lengths; byte-string and Option text encoders) + " + V + " (RowWriter text rows = concatenation of the cells' encodings, one packet per row; date/datetime/duration and the macro-generated integer/float text encoders with interpreted format literals); std Display itself and the mysql_common::Value text dispatch: bounded native stand-in (n2_text)",
        "design_ref": "DESIGN.md section 6 C06",
        "text": "Proved: length-encoded integers and strings are written exactly per protocol for every value/length; [u8]/Vec/&T text encoding == lenenc_str(bytes); None == 0xFB and never collides with a string's first byte; in text mode each write_col appends exactly the value's encoding and end_row ends exactly one packet holding the row.",
        "note": "The integer and float text encoders are macro-generated (`mysql_text_trivial!()`): the macro body is extracted (rule R10, parameterless arm only) and verified once for an abstract cell type whose std Display output is dec(value); `expect` anchors pin that every numeric impl invokes the macro. ASSUMED: std Display for integers is the canonical decimal numeral (and `{:0N}` zero padding); for f32/f64 that it is a decimal that parses back to the same value. These assumptions are CHECKED (not proved) by the bounded native stand-in native/n2_text.rs (about 100000 values: boundaries, powers of 2 and 10 +-1, pseudo-random; decoded with an independent decoder), which also covers the myc::Value text dispatch (not under contract). str/String/Vec forwarding is bounded (2 bytes).",
    },
    "C07": {
        "engine": "verus+kani",
        "technique": V + " (write_col/end_row: NULL bitmap bit-vector lemmas, row = 0x00 ++ bitmap ++ values, for any column count) + " + K + " (every to_mysql_bin implementation, symbolic value x column type x flags)",
        "design_ref": "DESIGN.md section 6 C07",
        "text": "RowWriter is proved to build binary rows as [0x00] ++ bitmap ++ encodings with bit (i+2)%8 of byte (i+2)/8 set iff cell i is NULL, bitmap length (n+9)/8, NOT NULL columns refuse NULL, too many columns refused; each encoder is proved by CBMC to write exactly the protocol's fixed-width/length-encoded/temporal form or to return Err with nothing written, never to panic.",
        "note": "Also counts the column-definition clauses of U2 ([C09.coldefs], [C09.count]): rows are decoded with the advertised column types and flags. Assumed in Verus: the abstract ToMysqlValue contract (the Kani harnesses discharge it per implementing type); Vec sink. Includes C15 (the integer cells). Date and datetime encoders are proved over every date chrono represents (a year outside the 16-bit wire field is refused: defect D17, repaired by fix c515862); chrono's leap-second representation (nanoseconds >= 10^9) is outside the harness domain. After a write_col error the row writer's state is unspecified (a retry may produce a malformed row; see DESIGN.md D16).",
    },
    "C08": {
        "engine": "verus+kani",
        "technique": V + " (Params::next against a functional spec of the EXECUTE parameter block) + " + K + " (execute offsets; ValueInner::parse_from for every type code; From<Value> conversions)",
        "design_ref": "DESIGN.md section 6 C08",
        "text": "Params::next is proved, for every well-formed block, to split the NULL bitmap, consume the flag byte, rebind types when present, and yield per parameter NULL / long data / the inline value consuming exactly its bytes, exactly n items. parse_from is proved for all type codes and both signedness flags (value, bytes consumed, Err on short input); conversions to integers, floats, bytes, NaiveDate, NaiveDateTime (4/7/11-byte forms incl. microseconds) and Duration (0/8/12) yield the encoded value.",
        "note": "Also counts StatementMetaWriter::reply's registry clause (U3): 'exactly as many parameters as the statement declared'. Seam: Value::parse_from is a stub in the Verus unit with an uninterpreted value_len; the Kani K3 harnesses prove the concrete facts. HashMap model (vstd).",
    },
    "C09": {
        "engine": "verus+kani",
        "technique": V + " (write_column_definitions loop invariant over any number of columns; column_definitions; write_prepare_ok; StatementMetaWriter::reply) + " + K + " (lenenc writers)",
        "design_ref": "DESIGN.md section 6 C09",
        "text": "For any column list the emitted packets are exactly [lenenc(count)] ++ coldef41(c) for each c ++ EOF, and for PREPARE the prepare_ok header with the two counts followed by parameter and column definitions; coldef41 is the protocol's ColumnDefinition41 over the declared table, name, type code and flags.",
        "note": "A PREPARE reply with more than 65535 columns or parameters (16-bit protocol fields) is proved to be REFUSED with nothing written ([C09.prepare_ok.refuse]; the pinned code announced truncated counts: defect D18, repaired by fix 6173f81). Iterator arguments other than slices/arrays are outside the proof (rule R8). String::as_bytes assumed.",
    },
    "C10": {
        "engine": "verus",
        "technique": V + ": whole-map postconditions on reply/error and on every arm of run (reg_step), HashMap helper specs",
        "design_ref": "DESIGN.md section 6 C10",
        "text": "reply inserts exactly one fresh entry (declared parameter count, no bound types, no long data) and leaves every other id unchanged; error leaves the registry unchanged; EXECUTE/SEND_LONG_DATA for an unknown id return Err before any callback or byte; CLOSE calls on_close once, removes the id, writes nothing; each served command changes the registry by exactly one reg_step.",
        "note": "Assumed: hm_get_mut / hm_append wrappers of HashMap::get_mut and entry().or_insert_with().extend() with map-level specs; vstd HashMap model; shim PREPARE callbacks change the registry only through reply (prep_step).",
    },
    "C11": {
        "engine": "verus+kani",
        "technique": V + " (init: greeting bytes and conformance lemma, one flush before the first read, after_authentication exactly once, reject/accept replies; run_on calls run only after init Ok) + " + K + " (client_handshake layouts; ER_ACCESS_DENIED_ERROR = 1045/28000)",
        "design_ref": "DESIGN.md section 6 C11",
        "text": "init is proved to put exactly one 69-byte HandshakeV10 packet with sequence id 0 on the wire (protocol 10, NUL-terminated version, PROTOCOL_41 always, SSL bit iff the shim offers a TLS config), flushed before reading; to call after_authentication exactly once with the user name client_handshake returned; on rejection to send ERR 1045/28000 with the next sequence id, flush, and return the shim's error; on success OK. run requires the state only init's success establishes.",
        "note": "client_handshake's user-name scan is proved for payloads of any length (k2_handshake_user_any: nom's FindSubstring -- memchr's inline asm is not executable by CBMC -- is replaced by its specification instantiated at one arbitrary index, and the harness asserts its claims at that same index: forall-introduction, no loop); the older 12-byte harness with the looping specification is kept as a bounded cross-check. The greeting specification is the byte sequence plus a conformance lemma (decoder facts).",
    },
    "C12": {
        "engine": "verus+kani",
        "technique": V + ": Transport::read requires flushed == |wire| (ghost instrumentation), PacketConn::next requires a quiescent writer; every caller must discharge it; Verus unit U8: after the TLS upgrade write/flush still reach the socket (PrependedReader::{write,flush}, SwitchableConn routing) + Kani bounded cross-check on the real std types",
        "design_ref": "DESIGN.md section 6 C12",
        "text": "The only operation that can wait for the peer carries the precondition 'everything written is flushed and nothing is buffered'; next, run and init are proved to establish it at every call (flush after the greeting, after the auth reply, at the end of every command iteration); a complete buffered packet is served without another read.",
        "note": "Transport contract is the model of the stream; 'answered' per command relies on C03. Under TLS the Transport seen by the proof is SwitchableConn: that its flush reaches the socket is proved in Verus unit U8 for the library's own wrappers ([C12.prepend.flush], [C12.route.flush]) and cross-checked by K7 (bounded, <= 3 bytes); rustls' own buffering is trusted.",
    },
    "C13": {
        "engine": "verus+kani",
        "technique": V + " (write_err payload; the four error entry points) + " + K + " (ErrorKind tables regenerated from the source each run)",
        "design_ref": "DESIGN.md section 6 C13",
        "text": "write_err emits exactly 0xFF ++ le16(code) ++ '#' ++ sqlstate ++ message; InitWriter::error, StatementMetaWriter::error, QueryResultWriter::error and RowWriter::finish_error pass kind and message through unchanged after the owed terminator / open row; for every defined code ErrorKind::from(code) as u16 == code and sqlstate() is five bytes of [0-9A-Z].",
        "note": "`err as u16` is modelled as an uninterpreted code() in Verus and checked by Kani. SQLSTATE values have no external oracle offline. Quick tier checks codes 1000..1099 and the kinds the library emits; thorough all defined codes.",
    },
    "C14": {
        "engine": "verus+kani",
        "technique": V + " (write_ok_packet payload; complete_one/completed remember and emit (rows, id); zero-column count) + " + K + " (write/read_lenenc_int inverse for all u64)",
        "design_ref": "DESIGN.md section 6 C14",
        "text": "OK packets are exactly 0x00 ++ lenenc(rows) ++ lenenc(id) ++ status ++ 00 00; completed/complete_one emit the given pair in the given order; a zero-column resultset finishes with OK(number of rows ended, 0); lenenc round-trips for every u64.",
        "note": "Same trusted base as C03.",
    },
    "C15": {
        "engine": "kani+verus",
        "technique": "Kani/CBMC contract harness per integer encoder, loop-free, full 8..64-bit symbolic domain (complete proof, counterexample replayed natively) + Verus proof that the advertised column type and flags are the declared ones ([C09.coldefs]: the client decodes with what the column definitions say)",
        "design_ref": "DESIGN.md section 6 C15",
        "text": "Proof for all values, all column type codes and both signedness flags: for each of the ten Rust integer types and the generic Int/UInt values the real to_mysql_bin is executed symbolically by CBMC against the contract {Ok => exactly width bytes and little-endian decode == value; whole-type-fits => Ok; pointer-sized value fits => Ok; non-integer column => Err; Err => nothing written}. No bound: the harnesses are loop-free over full-width bit-vectors.",
        "note": "Trusted: CBMC/Kani's model of Rust and of byteorder's write_* on the sink; std::fmt::format stubbed (error message text only); the sink is a 16-byte all-or-nothing Write (the real sink is Vec<u8>). The composition 'encoder output + advertised column definition => what the client decodes' is the MySQL binary protocol's reading rule, not proved here; the witness scenario w_c15_ints exercises it end to end (bounded).",
    },
    "C16": {
        "engine": "verus",
        "technique": V + ": Params::next header step (rebind replaces, reuse keeps and consumes the flag byte) + hub registry steps (only the executed statement's entry is borrowed)",
        "design_ref": "DESIGN.md section 6 C16",
        "text": "Flag non-zero: bound types become exactly the n new pairs; flag zero: bound types unchanged and values decoded from the byte after the flag with the remembered types; ParamParser::new borrows only the executed statement's bound_types; every other statement's entry is unchanged in every arm of run; reply resets an id.",
        "note": "Also counts StatementMetaWriter::reply's registry clause (U3): a re-prepared id starts without stale types. Binding happens inside Params::next, i.e. when the shim iterates the parameters.",
    },
    "C17": {
        "engine": "verus+kani",
        "technique": V + " (hm_append chunk concatenation, clear after execute, long-data override in Params::next) + " + K + " (send_long_data offsets)",
        "design_ref": "DESIGN.md section 6 C17",
        "text": "SEND_LONG_DATA appends the chunk to (stmt, param) and changes nothing else, writes nothing, calls nothing; after on_execute returns Ok the statement's long data is empty and other statements are untouched; a parameter with pending long data is delivered as those bytes without consuming the inline stream.",
        "note": "Also counts StatementMetaWriter::reply's registry clause (U3): a re-prepared id starts without stale long data. Same HashMap assumptions as C10.",
    },
    "C18": {
        "engine": "verus+kani",
        "technique": V + " (switch_to_tls hands exactly the unparsed tail to the TLS layer and resets the buffer; init upgrades only when nothing is buffered or unflushed, refuses CLIENT_SSL without a config before after_authentication) + Verus unit U8 on src/tls.rs (PrependedReader proved to implement the Transport contract with inbox = prepended ++ socket; SwitchableConn read/write/flush/new/switch_to_tls) + Kani bounded harnesses on the real std Chain/Cursor underneath",
        "design_ref": "DESIGN.md section 6 C18",
        "text": "PARTIAL CLAIM (the library's own side of the hand-over): switch_to_tls passes bytes[len-remaining..] -- whatever the chunking left unparsed -- so that the TLS layer's input stream is exactly pending (no byte skipped, none parsed twice); at the switch the writer is quiescent (no plaintext buffered or unflushed); the second handshake's user name reaches after_authentication; PrependedReader is proved (Verus U8, unbounded) to be a Transport whose inbox is prepended ++ socket bytes -- in order, each once, under every read chunking -- and whose writes/flushes reach the socket only; SwitchableConn forwards read/write/flush to its current variant, and switch_to_tls hands to_prepend ++ socket to the TLS session keeping the plaintext-level views.",
        "note": "TRUSTED and outside any contract on this crate: rustls (record layer, handshake, 'nothing in plaintext after the switch' at the level of record contents, peer certificates), create_stream (rustls construction). ASSUMED: std::io::Chain/Cursor read order (stub contract in prelude/tlsdeps.vrs; checked against the real std code by K7, bounded: prepended <= 3, socket <= 3 bytes, 5 reads), std default write_all. SwitchableConn's methods are proved under the invariant 'a stream is present' (established by new, kept by every method that returns Ok); the opaque SwitchableConn the other units see is tied to U8 by the shared predicates read_post/write_post/flush_post, not by an import.",
    },
    "C19": {
        "engine": "verus",
        "technique": V + ": every Transport operation may return Err (fault at every operation index); error propagation and no-panic obligations of all units; callbacks require !faulted",
        "design_ref": "DESIGN.md section 6 C19",
        "text": "Against a transport whose every read/write/flush may fail, every function of U1-U5 is proved panic-free and to return Err when a callee fails; EOF inside a packet is an error, EOF at a boundary ends run with Ok; shim callbacks are only started on an unfaulted connection; shim errors are returned as they are.",
        "note": "KNOWN FINDINGS (not repaired): the two Drop bodies unwrap() I/O results (D10/D11). Drops of locals on error paths are not modelled. run_on's Ok-iff clause is structural (the loop leaves only via Ok(None) or QUIT).",
    },
    "C20": {
        "engine": "verus+kani",
        "technique": K + " (panic-freedom of fullpacket/onepacket/parse/client_handshake/parse_from on all inputs) + " + V + " (next terminates and never panics; run/init never panic; Params::next without precondition)",
        "design_ref": "DESIGN.md section 6 C20",
        "text": "All functions that touch client bytes are proved free of panics and non-terminating loops for every byte string: CBMC's built-in checks on the nom parsers and the value decoder with symbolic contents and lengths, Verus's implicit obligations plus decreases clauses on next and run.",
        "note": "KNOWN FINDINGS (not repaired): five panic sites in Params::next reachable with a malformed EXECUTE payload when the shim iterates the parameters (D9). packet() panic-freedom and its out-of-order flag are proved in Verus unit U7 over the transcribed nom combinators (trusted to match nom; bounded native cross-check N1 with overflow checks). (formerly: native enumeration). client_handshake's user-name scan complete (k2_handshake_user_any).",
    },
}

NOT_APPLICABLE = {}
