#!/bin/sh
# usage: try_seed.sh <seed dir name> <property> [extra env like VERIF_SKIP_KANI=1]
# Runs ./check <property> against a scratch worktree of /repo with the seeded change applied
# (never touches /repo's working tree), then removes the worktree.
seed=$1; prop=$2; shift 2
wt=/tmp/seedtest-$seed-$$
git -C /repo worktree add -q --detach $wt HEAD || exit 2
( cd $wt && git apply /verif/seeded/$seed/patch.diff ) || { git -C /repo worktree remove --force $wt; echo "patch does not apply"; exit 2; }
( cd /verif && env VERIF_REPO=$wt VERIF_SCRATCH=/tmp/msql-verif-scratch-seed-$$ VERIF_EVIDENCE_DIR=/tmp/seed-evidence VERIF_REPLAY_DIR=/tmp/seed-replays "$@" ./check $prop )
rc=$?
git -C /repo worktree remove --force $wt
exit $rc
