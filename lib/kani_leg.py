"""Kani leg: contracts as assume/assert harnesses over the unmodified crate (DESIGN 3.3)."""
import contextlib
import fcntl
import json
import os
import re

from common import (KANI_TARGET, CACHE, VERIF, Undecided, log, offline_env, run, sha256)
from common import purge_crate_artifacts as common_purge

KANI_DIR = os.path.join(VERIF, "kani")
REPLAY_TARGET = os.path.join(CACHE, "replay-target")
MEM_GB = float(os.environ.get("VERIF_KANI_MEM_GB", "14"))
CLAUSE_RE = re.compile(r"\[([A-Z][0-9A-Za-z]*(?:\.[0-9A-Za-z_]+)+)\]")


@contextlib.contextmanager
def target_lock(name):
    """Concurrent cargo-kani runs that share a target directory corrupt each other's goto binaries
    (observed: `irep not terminated`); serialise them."""
    os.makedirs(CACHE, exist_ok=True)
    f = open(os.path.join(CACHE, name + ".lock"), "w")
    try:
        fcntl.flock(f, fcntl.LOCK_EX)
        yield
    finally:
        fcntl.flock(f, fcntl.LOCK_UN)
        f.close()


class Group:
    def __init__(self, path):
        self.path = path
        self.name = None
        self.inject = None
        self.default_clause = None
        self.harnesses = {}   # name -> dict(tier, kind, fn, bound, note)
        self.clauses = {}     # id -> text
        self.pre_hooks = []   # generators run on the scratch copy before the build (see HOOKS)
        self.extra_deps = []  # lines added under [dependencies] of the scratch Cargo.toml (already in Cargo.lock)
        self.text = open(path).read()
        for line in self.text.splitlines():
            if not line.startswith("//@"):
                continue
            parts = line[3:].split()
            if not parts:
                continue
            key = parts[0]
            if key == "group":
                self.name = parts[1]
            elif key == "inject":
                self.inject = parts[1]
            elif key == "default-clause":
                self.default_clause = parts[1]
            elif key == "harness":
                h = {"tier": "quick", "kind": "complete"}
                for kv in parts[2:]:
                    if "=" in kv:
                        k, v = kv.split("=", 1)
                        h[k] = v
                self.harnesses[parts[1]] = h
            elif key == "clause":
                self.clauses[parts[1]] = " ".join(parts[2:])
            elif key == "pre-hook":
                self.pre_hooks.append(parts[1])
            elif key == "extra-dep":
                self.extra_deps.append(" ".join(parts[1:]))
        if not (self.name and self.inject):
            raise Undecided("kani group file %s lacks //@ group / inject" % path)

    @property
    def modname(self):
        return "verif_kani_" + self.name

    def modpath(self):
        p = self.inject
        assert p.startswith("src/") and p.endswith(".rs")
        p = p[4:-3]
        segs = [s for s in p.split("/") if s not in ("lib", "mod", "main")]
        return "::".join(segs + [self.modname])

    def full(self, h):
        return self.modpath() + "::" + h


def hook_k5_table(scratch, env):
    """Regenerate the list of defined error kinds from the snapshot's errorcodes.rs."""
    src = open(os.path.join(scratch, "src/errorcodes.rs")).read()
    m = re.search(r"^pub enum ErrorKind \{\n(.*?)\n\}", src, re.S | re.M)
    if not m:
        raise Undecided("lost anchor: enum ErrorKind not found in src/errorcodes.rs")
    codes = [int(c) for c in re.findall(r"^\s+[A-Z][A-Z0-9_]* = (\d+),\s*$", m.group(1), re.M)]
    n_variants = len(re.findall(r"^\s+[A-Z][A-Z0-9_]*( = \d+)?,\s*$", m.group(1), re.M))
    if not codes or n_variants != len(codes):
        raise Undecided("errorcodes.rs: %d variants but %d explicit discriminants" % (n_variants, len(codes)))
    path = os.path.join(scratch, "verif_k5_table.rs")
    with open(path, "w") as f:
        f.write("pub const N_DEFINED: usize = %d;\n" % len(codes))
        f.write("pub fn is_defined(x: u16) -> bool {\n    matches!(x, %s)\n}\n" % " | ".join(str(c) for c in sorted(codes)))
    env["VERIF_K5_TABLE"] = path
    return {"defined_error_kinds": len(codes)}


HOOKS = {"k5_table": hook_k5_table}


def load_group(name):
    return Group(os.path.join(KANI_DIR, name + ".rs"))


def inject(scratch, groups, replay=None):
    """Append `#[cfg(kani)] mod` declarations to module files of the scratch copy. Nothing else in
    the crate is modified. replay = (group, harness, values) additionally appends a native #[test]."""
    libp = os.path.join(scratch, "src/lib.rs")
    with open(libp, "a") as f:
        f.write('\n#[cfg(any(kani, verif_replay))]\n#[path = "%s"]\nmod verif_kani_common;\n'
                % os.path.join(KANI_DIR, "common.rs"))
    for g in groups:
        p = os.path.join(scratch, g.inject)
        if not os.path.exists(p):
            raise Undecided("lost anchor: %s (inject target of kani group %s) does not exist" % (g.inject, g.name))
        with open(p, "a") as f:
            f.write('\n#[cfg(any(kani, verif_replay))]\n#[path = "%s"]\nmod %s;\n' % (g.path, g.modname))
            if replay and replay[0] is g:
                vals = ", ".join("vec![%s]" % ", ".join(str(b) for b in v) for v in replay[2])
                f.write("\n#[cfg(verif_replay)]\n#[test]\nfn verif_replay_run() {\n"
                        "    crate::verif_kani_common::vk::load(vec![%s]);\n    %s::%s();\n}\n"
                        % (vals, g.modname, replay[1]))
    deps = sorted({d for g in groups for d in g.extra_deps})
    if deps:
        cargo = os.path.join(scratch, "Cargo.toml")
        txt = open(cargo).read()
        txt = txt.replace("[dependencies]\n", "[dependencies]\n" + "\n".join(deps) + "\n", 1)
        open(cargo, "w").write(txt)
    # the dependency lock of /repo is used as is
    if not os.path.exists(os.path.join(scratch, "Cargo.lock")):
        raise Undecided("Cargo.lock missing in snapshot")


def kani_cmd(harness_full, jobs, export_json, playback=False, harness_timeout=900):
    cmd = ["cargo", "kani", "-Z", "function-contracts", "-Z", "stubbing", "-Z", "unstable-options",
           "--output-format", "terse", "--exact"]
    for h in harness_full:
        cmd += ["--harness", h]
    cmd += ["--harness-timeout", "%ds" % harness_timeout]
    if playback:
        cmd += ["-Z", "concrete-playback", "--concrete-playback=print"]
    else:
        cmd += ["-j", str(jobs), "--export-json", export_json]
    return cmd


def classify(check, group):
    """Map one failed CBMC check to (clause, kind). kind: 'contract' (clause-tagged assertion of the
    harness), 'panic' (assert/panic/unwrap/overflow/bounds inside the code under contract),
    'tool' (unsupported construct, unwinding assertion => undecided, never a violation)."""
    desc = check.get("description", "")
    cat = check.get("category", "")
    if cat in ("unsupported_construct", "missing_definition") or "unwinding assertion" in desc \
            or cat == "unwind" or "recursion unwinding" in desc:
        return None, "tool"
    m = CLAUSE_RE.search(desc)
    if m:
        return m.group(1), "contract"
    return group.default_clause, "panic"


def run_harnesses(scratch, groups_harnesses, jobs=8, timeout=3000, label="kani"):
    """groups_harnesses: list of (Group, [harness names]). Returns dict with per-harness results."""
    full = []
    owner = {}
    for g, hs in groups_harnesses:
        for h in hs:
            full.append(g.full(h))
            owner[g.full(h)] = (g, h)
    export = os.path.join(scratch, "kani-export-%s.json" % label)
    cmd = kani_cmd(full, jobs, export)
    env = offline_env({"CARGO_TARGET_DIR": KANI_TARGET})
    for g, _ in groups_harnesses:
        for h in g.pre_hooks:
            HOOKS[h](scratch, env)
    # memory ceiling for the whole process tree (CBMC reached 36 GB on an oversized harness)
    with target_lock("kani"):
        common_purge(KANI_TARGET, scratch)
        rc, out, err, wall = run(cmd, cwd=scratch, timeout=timeout, env=env, mem_gb=MEM_GB)
    text = out + "\n" + err
    if rc == -9:
        raise Undecided("cargo kani timed out after %ss" % timeout)
    if not os.path.exists(export):
        tail = "\n".join(text.splitlines()[-40:])
        raise Undecided("cargo kani produced no result file (build error?):\n" + tail)
    data = json.load(open(export))
    results = {}
    stats = {s["harness_id"]: s.get("cbmc_stats", {}) for s in data.get("cbmc", [])}
    for r in data["verification_results"]["results"]:
        hid = r["harness_id"]
        if hid not in owner:
            continue
        g, h = owner[hid]
        checks = r.get("checks", [])
        failed, tool, covers_bad, covers_ok = [], [], [], 0
        n_assert = 0
        for c in checks:
            st = c.get("status")
            if c.get("category") == "cover":
                if st == "Satisfied":
                    covers_ok += 1
                else:
                    covers_bad.append(c.get("description"))
                continue
            n_assert += 1
            if st in ("Success", "Unreachable"):
                continue
            clause, kind = classify(c, g)
            rec = {"clause": clause, "kind": kind, "description": c.get("description"),
                   "function": c.get("function"), "status": st,
                   "site": "%s:%s" % (os.path.relpath(c["location"]["file"], scratch)
                                      if c["location"]["file"].startswith(scratch) else c["location"]["file"],
                                      c["location"]["line"]),
                   "harness": h, "group": g.name}
            if kind == "tool" or st not in ("Failure",):
                tool.append(rec)
            else:
                failed.append(rec)
        if (r.get("status") != "Success" and not failed and not tool) or n_assert == 0:
            tool.append({"clause": None, "kind": "tool", "harness": h, "group": g.name, "site": "-", "function": hid,
                         "description": "harness did not complete: status=%s, %d checks reported (CBMC crash, memory or time limit?)"
                         % (r.get("status"), n_assert)})
        results[hid] = {
            "group": g.name, "harness": h, "status": r.get("status"), "duration_s": r.get("duration_ms", 0) / 1000.0,
            "checks": n_assert, "failed": failed, "tool": tool, "covers_ok": covers_ok,
            "covers_unsat": covers_bad, "solver_s": (stats.get(hid) or {}).get("runtime_decision_procedure_s"),
            "meta": g.harnesses[h],
        }
    missing = [h for h in full if h not in results]
    if missing:
        tail = "\n".join(text.splitlines()[-40:])
        raise Undecided("kani did not report harnesses %s (lost anchor or build failure):\n%s" % (missing, tail))
    return {"results": results, "wall_s": wall, "cmd": " ".join(cmd),
            "tools": data.get("tools", {})}


PLAY_RE = re.compile(r"Check for `[^`]*`: \"(.*)\"\s*$")


def playback(scratch, group, harness, timeout=1500):
    """Re-run one failing harness with concrete playback; returns list of (check description, values)."""
    cmd = kani_cmd([group.full(harness)], 1, None, playback=True)
    env = offline_env({"CARGO_TARGET_DIR": KANI_TARGET})
    for h in group.pre_hooks:
        HOOKS[h](scratch, env)
    with target_lock("kani"):
        common_purge(KANI_TARGET, scratch)
        rc, out, err, wall = run(cmd, cwd=scratch, timeout=timeout, env=env)
    tests = []
    cur_desc, vals, in_vals = None, [], False
    for line in out.splitlines():
        m = PLAY_RE.search(line)
        if line.startswith("/// Check for") and m:
            cur_desc = m.group(1).strip('"')
        if "let concrete_vals" in line:
            vals, in_vals = [], True
            continue
        if in_vals:
            s = line.strip()
            if s.startswith("vec!["):
                inner = s[5:s.rindex("]")]
                vals.append([int(x) for x in inner.split(",") if x.strip()])
            elif s.startswith("];"):
                in_vals = False
                tests.append((cur_desc, vals))
    return tests


def native_replay(scratch, group, harness, values, timeout=1800):
    """Run the same harness function natively (no Kani) on concrete values against the real code.
    Returns (reproduced: bool, output tail)."""
    cargo = os.path.join(scratch, "Cargo.toml")
    txt = open(cargo).read()
    # the replay build only needs the library's own dependencies: drop dev-dependency sections
    out, keep = [], True
    for line in txt.splitlines():
        if line.startswith("["):
            keep = "dev-dependencies" not in line
        if keep:
            out.append(line)
    open(cargo, "w").write("\n".join(out) + "\n")
    env = offline_env({"CARGO_TARGET_DIR": REPLAY_TARGET, "RUSTFLAGS": "--cfg verif_replay -A warnings -C overflow-checks=on"})
    for h in group.pre_hooks:
        HOOKS[h](scratch, env)
    with target_lock("replay"):
        common_purge(REPLAY_TARGET, scratch)
        rc, so, se, wall = run(["cargo", "test", "--offline", "--lib", "verif_replay_run", "--", "--nocapture"],
                               cwd=scratch, timeout=timeout, env=env)
    text = so + "\n" + se
    tail = "\n".join(l for l in text.splitlines() if "panicked" in l or "[C" in l or "test result" in l
                     or "assertion" in l or "replay:" in l)[-2000:]
    reproduced = (rc != 0) and ("panicked" in text) and ("replay: assumption violated" not in text) \
        and ("replay: ran out" not in text)
    return reproduced, tail, rc
