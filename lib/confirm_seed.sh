#!/bin/sh
# usage: confirm_seed.sh <worktree> <id>   -- re-confirms a seeded change: suite passes with it, demo fails with it and passes without
wt=$1; id=$2
cd $wt || exit 2
export CARGO_TARGET_DIR=$wt/target CARGO_NET_OFFLINE=true
demo=tests/demo_$id.rs
echo "== suite with change (demo set aside)"
[ -f $demo ] && mv $demo /tmp/demo_$id.rs.aside
cargo test --offline --no-fail-fast 2>&1 | grep -E "^test result|FAILED|failed|error" | head -8
[ -f /tmp/demo_$id.rs.aside ] && mv /tmp/demo_$id.rs.aside $demo
echo "== demo with change"
cargo test --offline --test demo_$id 2>&1 | grep -E "^test result|^test .*FAILED|error\[" | head -8
echo "== demo without change"
# (no `git stash`: the stash is shared by every worktree of /repo, concurrent users pop each other's entries)
git diff -- src > .seed.patch && git apply -R .seed.patch && cargo test --offline --test demo_$id 2>&1 | grep -E "^test result|^test .*FAILED|error\[" | head -8; git apply .seed.patch; rm -f .seed.patch
git diff --stat -- src
