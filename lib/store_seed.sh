#!/bin/sh
# usage: store_seed.sh <worktree> <property> <seed id>   -- copy a confirmed seeded change into /verif/seeded/<id>/
wt=$1; prop=$2; id=$3
d=/verif/seeded/$id
mkdir -p $d
( cd $wt && git diff -- src ) > $d/patch.diff
[ -f $wt/tests/demo_$prop.rs ] && cp $wt/tests/demo_$prop.rs $d/demo_$prop.rs
cp $wt/NOTES.md $d/NOTES.md
title=$(python3 -c "import json,sys
for l in open('/verif/properties.jsonl'):
    d=json.loads(l)
    if d['id']=='$prop': print(d['title'])")
python3 - "$d" "$id" "$prop" "$title" <<'PY'
import json,sys
d,i,p,t=sys.argv[1:5]
json.dump({"id":i,"breaks_property":p,"property_title":t,
 "origin":"written by an independent sub-agent that saw only the property text and a scratch worktree of /repo (eleventh batch: told which earlier ideas not to repeat and to prefer a site that is not the obvious function for the property)",
 "needs_to_manifest":"see NOTES.md (written by the sub-agent)",
 "confirmed_by_me":"lib/confirm_seed.sh <worktree> %s: crate builds; cargo test --offline --no-fail-fast passes all pre-existing tests with the change; tests/demo_%s.rs fails with the change and passes with `git stash push -- src`"%(p,p),
 "applies_to_repo_commit":"14ae7fb or later (git -C /repo apply patch.diff)",
 "detected_by":"(not yet tried)"},open(d+"/meta.json","w"),indent=1)
PY
ls $d
