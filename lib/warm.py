#!/usr/bin/env python3
"""Warm the dependency build caches (.cache/kani-target, .cache/replay-target). Framework output only;
the crate itself is rebuilt from a fresh snapshot of /repo on every check."""
import os, sys
sys.path.insert(0, os.path.dirname(os.path.abspath(__file__)))
import common, kani_leg
s = common.snapshot("warm")
try:
    g = kani_leg.load_group("k4_ints")
    kani_leg.inject(s, [g], replay=(g, "c15_u8", [[1], [1], [1]]))
    env = common.offline_env({"CARGO_TARGET_DIR": common.KANI_TARGET})
    rc, out, err, w = common.run(["cargo", "kani", "-Z", "function-contracts", "-Z", "stubbing", "--only-codegen"], cwd=s, env=env, timeout=1800)
    print("kani warm rc=%s %.0fs" % (rc, w)); 
    if rc != 0: print(err[-2000:])
    ok, tail, rc = kani_leg.native_replay(s, g, "c15_u8", [[1], [1], [1]])
    print("replay warm rc=%s" % rc)
finally:
    common.cleanup(s)
