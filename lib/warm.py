#!/usr/bin/env python3
"""Warm the dependency build caches (.cache/kani-target, .cache/replay-target). Framework output only;
the crate itself is rebuilt from a fresh snapshot of /repo on every check. Failures here are not
fatal: the checks build what they need themselves (just slower the first time)."""
import os, sys
sys.path.insert(0, os.path.dirname(os.path.abspath(__file__)))
import common, kani_leg, native_leg
try:
    s = common.snapshot("warm-kani")
    try:
        g = kani_leg.load_group("k4_ints")
        kani_leg.inject(s, [g])
        r = kani_leg.run_harnesses(s, [(g, ["c15_u8"])], jobs=2, timeout=2400, label="warm")
        print("kani cache warm: %.0fs" % r["wall_s"])
    finally:
        common.cleanup(s)
except Exception as e:  # noqa
    print("kani warm-up skipped:", str(e)[-400:])
try:
    s = common.snapshot("warm-native")
    try:
        g = native_leg.load("w_server")
        r = native_leg.run_group(s, g, only=["w_c14_counts"], timeout=2400)
        print("native cache warm: %.0fs" % r["wall_s"])
    finally:
        common.cleanup(s)
except Exception as e:  # noqa
    print("native warm-up skipped:", str(e)[-400:])
try:
    s = common.snapshot("warm-replay")
    try:
        g = kani_leg.load_group("k4_ints")
        kani_leg.inject(s, [g], replay=(g, "c15_u8", [[1], [1], [1]]))
        ok, tail, rc = kani_leg.native_replay(s, g, "c15_u8", [[1], [1], [1]])
        print("replay cache warm rc=%s" % rc)
    finally:
        common.cleanup(s)
except Exception as e:  # noqa
    print("replay warm-up skipped:", str(e)[-400:])
