"""Verus leg: extract real function text (xtract), splice contracts, verify (DESIGN 3.3-3.6)."""
import json
import os
import re

from common import VERIF, Undecided, log, offline_env, run, sha256

XTRACT = os.path.join(VERIF, "xtract/target/release/xtract")
CONTRACTS = os.path.join(VERIF, "contracts")
TAG_RE = re.compile(r"//\[([A-Z][0-9A-Za-z]*(?:\.[0-9A-Za-z_]+)+)\]")
OPEN_RE = re.compile(r"/\*\[(\d+)\*/")

SAFETY_MSGS = ("possible arithmetic underflow/overflow", "possible division by zero", "index out of bounds",
               "possible bit shift underflow/overflow", "slice index", "range", "cannot show", "recommendation not met")
TOOL_MSGS = ("Resource limit (rlimit) exceeded", "rlimit", "timed out", "not supported", "unsupported", "panicked",
             "The verifier does not yet support", "internal error")


def invert(text, edits):
    """Undo the extractor's marked edits (outermost regions) -> original source text."""
    out = []
    i = 0
    while True:
        m = OPEN_RE.search(text, i)
        if not m:
            out.append(text[i:])
            break
        out.append(text[i:m.start()])
        n = m.group(1)
        close = "/*%s]*/" % n
        j = text.find(close, m.end())
        if j < 0:
            raise Undecided("extractor marker %s not closed" % n)
        out.append(edits[int(n)]["before"])
        i = j + len(close)
    return "".join(out)


def check_faithful(unit_text, manifest):
    """Re-establish on every run that the verified text is the code of /repo: invert every logged
    rule application and compare with the original bytes."""
    edits = {e["id"]: e for e in manifest["edits"] if "id" in e}
    n = 0
    for f in manifest["functions"]:
        k = f["item_id"]
        a = unit_text.find("/*{item:%d*/" % k)
        b = unit_text.find("/*item:%d}*/" % k)
        if a < 0 or b < 0:
            raise Undecided("item %d of %s missing from generated unit" % (k, f["anchor"]))
        body = unit_text[a + len("/*{item:%d*/" % k):b]
        back = invert(body, edits)
        if back != f["text"]:
            # find first difference for the report
            d = next((i for i in range(min(len(back), len(f["text"]))) if back[i] != f["text"][i]), -1)
            raise Undecided("faithfulness check failed for %s near %r vs %r" % (
                f["anchor"], back[max(0, d - 30):d + 30], f["text"][max(0, d - 30):d + 30]))
        n += 1
    return n


def origin_of(manifest, line):
    lo = manifest["line_origin"]
    if 1 <= line <= len(lo):
        return lo[line - 1]
    return "gen"


def clause_from_origin(origin, unit_lines, line):
    """origin strings: repo:<file>:<line> | vrs:<file>:<line> | clause:<id>:<unit>:<line> | hint:<id>:... | gen..."""
    parts = origin.split(":")
    if parts[0] == "clause":
        return parts[1]
    if parts[0] in ("hint", "check"):
        return parts[1] if parts[1] != "-" else None
    # prelude line with an inline tag  //[Cxx.y]
    if 1 <= line <= len(unit_lines):
        m = TAG_RE.search(unit_lines[line - 1])
        if m:
            return m.group(1)
    return None


def site_of(origin):
    parts = origin.split(":")
    if parts[0] == "repo":
        return "%s:%s" % (parts[1], parts[2])
    if parts[0] in ("clause", "hint", "check"):
        return "contracts/%s:%s" % (parts[2], parts[3])
    if parts[0] == "vrs":
        return "contracts/%s:%s" % (parts[1], parts[2])
    return origin


def fn_of_line(manifest, unit_text_lines, line):
    """Which extracted function contains generated line `line`?"""
    # scan backwards for an item-open marker
    for ln in range(min(line, len(unit_text_lines)), 0, -1):
        m = re.search(r"/\*\{item:(\d+)\*/", unit_text_lines[ln - 1])
        if m:
            k = int(m.group(1))
            # make sure the item is not closed before `line`
            for l2 in range(ln, line):
                if ("/*item:%d}*/" % k) in unit_text_lines[l2 - 1] and l2 < line:
                    return None
            for f in manifest["functions"]:
                if f["item_id"] == k:
                    return f
            return None
    return None


def parse_diagnostics(stderr_text, manifest, unit_lines, safety_clause):
    failures, tool = [], []
    for raw in stderr_text.splitlines():
        raw = raw.strip()
        if not raw.startswith("{"):
            continue
        try:
            d = json.loads(raw)
        except ValueError:
            continue
        if d.get("$message_type") != "diagnostic" or d.get("level") != "error":
            continue
        msg = d.get("message", "")
        if msg.startswith("aborting due to"):
            continue
        spans = d.get("spans", [])
        prim = next((s for s in spans if s.get("is_primary")), spans[0] if spans else None)
        rendered = d.get("rendered", "")
        if prim is None or d.get("code"):
            rec = {"description": msg, "site": "-", "kind": "tool", "verifier_output": rendered}
            if prim is not None:
                # an unknown UPPER_CASE name in extracted code: a constant the changed code introduced
                mm = re.match(r"cannot find value `([A-Z][A-Z0-9_]*)` in this scope", msg)
                po0 = origin_of(manifest, prim["line_start"])
                if mm and po0.startswith("repo:"):
                    rec["extra_item"] = "%s::%s" % (po0.split(":")[1], mm.group(1))
                # an unknown free function called from extracted code: a helper the changed code introduced
                mf = re.match(r"cannot find (?:function|value) `([a-z_][a-z0-9_]*)` in this scope", msg)
                if mf and po0.startswith("repo:"):
                    rec["extra_fn"] = "%s::%s" % (po0.split(":")[1], mf.group(1))
                # a compile error inside spliced hint text (e.g. the hint names a local that the changed
                # code renamed): the driver retries with the hints of that function dropped
                po = origin_of(manifest, prim["line_start"])
                pf = fn_of_line(manifest, unit_lines, prim["line_start"])
                rec["site"] = site_of(po)
                if po.startswith("hint:") and pf:
                    rec["hint_fn"] = pf["anchor"]
            tool.append(rec)
            continue
        pl = prim["line_start"]
        porigin = origin_of(manifest, pl)
        f = fn_of_line(manifest, unit_lines, pl)
        fname = f["anchor"] if f else None
        ptext = ""
        try:
            ptext = re.sub(r"/\*\[?\d+\]?\*/", "", prim["text"][0]["text"]).strip()
        except (KeyError, IndexError):
            pass
        rec = {"engine": "verus", "description": msg, "function": fname, "site": site_of(porigin),
               "verifier_output": rendered, "gen_line": pl, "text": ptext}
        if any(t in msg for t in TOOL_MSGS):
            rec["kind"] = "tool"
            tool.append(rec)
            continue
        clause = None
        kind = "contract"
        if "postcondition not satisfied" in msg or "invariant not satisfied" in msg or "decreases not satisfied" in msg \
                or "loop invariant" in msg or "post-condition of closure" in msg:
            # the clause is in a non-primary span labelled "failed this ..." or in the primary
            for s in spans:
                lab = (s.get("label") or "")
                if "failed this" in lab or "invariant" in lab:
                    c = clause_from_origin(origin_of(manifest, s["line_start"]), unit_lines, s["line_start"])
                    if c:
                        clause = c
                        rec["clause_site"] = site_of(origin_of(manifest, s["line_start"]))
            if clause is None:
                clause = clause_from_origin(porigin, unit_lines, pl)
        elif "precondition not satisfied" in msg:
            for s in spans:
                if "failed precondition" in (s.get("label") or ""):
                    if s.get("file_name", "").endswith("unit.rs"):
                        c = clause_from_origin(origin_of(manifest, s["line_start"]), unit_lines, s["line_start"])
                        if c:
                            clause = c
                        rec["clause_site"] = site_of(origin_of(manifest, s["line_start"]))
                    else:
                        rec["clause_site"] = "%s:%s" % (s.get("file_name"), s["line_start"])
            if clause is None:
                kind = "panic"
                clause = (safety_clause or {}).get(fname)
        elif "assertion failed" in msg:
            clause = clause_from_origin(porigin, unit_lines, pl)
        elif any(t in msg for t in SAFETY_MSGS):
            kind = "panic"
            clause = (safety_clause or {}).get(fname)
        else:
            # unknown kind of error: a tool problem, not a property violation
            rec["kind"] = "tool"
            tool.append(rec)
            continue
        rec["kind"] = kind
        rec["clause"] = clause
        failures.append(rec)
    return failures, tool


# How each stub of the preludes is (or is not) backed. Keys are item names as scan_trusted reports them.
#   seam       = a function of /repo that this unit assumes and ANOTHER leg proves (named harness / unit)
#   dependency = code outside /repo (std, byteorder, mysql_common, nom, rustls); "checked" names the Kani
#                harness that checks the assumed contract against the real dependency code
#   model      = specification vocabulary (uninterpreted functions, ghost views); not an assumption about code
BACKING = {
    "fn fullpacket": "seam: proved by Kani k1_fullpacket (complete, length <= 2^40)",
    "fn onepacket": "seam: proved by Kani k1_onepacket (complete, length <= 2^40)",
    "fn parse": "seam: proved by Kani k2_parse_* (complete per command byte, payload length <= 2^40)",
    "fn client_handshake": "seam: proved by Kani k2_handshake_fixed and k2_handshake_user_any (complete: payload length <= 2^40, memchr replaced by its specification instantiated at an arbitrary index); k2_handshake_user (bounded, 12-byte scan with the looping specification) kept as a cross-check",
    "fn parse_from": "seam: proved by Kani k3_parse_fixed / k3_parse_bytes / k3_parse_temporal (complete)",
    "fn try_from": "dependency (mysql_common ColumnType::try_from): checked by Kani k3_parse_* over all 256 codes",
    "fn sqlstate": "seam: proved by Kani k5_codes_* (sqlstate of every defined kind; complete over all u16 codes, sharded)",
    "fn axiom_access_denied_state": "seam: proved by Kani k5_emitted (ER_ACCESS_DENIED_ERROR.sqlstate() == 28000)",
    "fn write_lenenc_int": "dependency (mysql_common): checked by Kani k6_write_lenenc_int (complete, all u64)",
    "fn write_lenenc_str": "dependency (mysql_common): checked by Kani k6_write_lenenc_str (complete in content, length classes)",
    "fn write_u16": "dependency (byteorder): checked by Kani k6_byteorder_le (complete)",
    "fn write_u32": "dependency (byteorder): checked by Kani k6_byteorder_le (complete)",
    "fn write_u24": "dependency (byteorder): checked by Kani k6_byteorder_le (complete)",
    "fn to_mysql_text": "seam: value encoders, proved by U6 (dates, times, integers, floats) / Kani k4_* (bytes, Option, forwarders); here only 'writes s_text(v) through the sink'",
    "fn to_mysql_bin": "seam: value encoders, proved by Kani k4_* / c15_* (complete per type); here only 'writes s_bin(v, col) through the sink or refuses'",
    "fn is_null": "seam: ToMysqlValue::is_null, Kani k4_option / k4_option_text",
    "fn read": "ASSUMED: std Read contract of the transport (returns any n <= min(buf.len(), available); 0 only at end of stream or for an empty buffer; Err sets faulted)",
    "fn write": "ASSUMED: std Write contract of the transport (accepts any 1 <= n <= buf.len() bytes in order, or Err)",
    "fn write_all": "ASSUMED for the transport: std write_all (all bytes in order or Err)",
    "fn flush": "ASSUMED: std Write::flush contract of the transport",
    "fn new": "constructors of opaque types: io::Error::new / Cursor::new ASSUMED (std); SwitchableConn::new proved in unit u8_tls ([C18.plain.new])",
    "fn switch_to_tls": "seam: SwitchableConn::switch_to_tls is proved in unit u8_tls against this statement ([C18.switch.tail], [C18.switch.wire], [C19.switch.fault]); rustls trusted",
    "struct SwitchableConn": "seam: src/tls.rs SwitchableConn is opaque here; unit u8_tls proves its real read/write/flush/new against the Transport contract (predicates read_post/write_post/flush_post) under the invariant that a stream is present; write_all = std default (assumed); rustls trusted",
    "fn vec_drain_prefix": "ASSUMED: std Vec::drain(0..n) removes exactly the first n elements (wrapper of the same call)",
    "fn vec_tail_mut": "ASSUMED: std IndexMut<RangeFrom> (wrapper of the same expression)",
    "fn vec_range_mut": "ASSUMED: std IndexMut<Range> (wrapper of the same expression)",
    "fn axiom_vec_len": "ASSUMED: Vec length <= isize::MAX (std allocation guarantee)",
    "fn hm_get_mut": "ASSUMED: std HashMap::get_mut (wrapper of the same call, map-level spec)",
    "fn hm_entry_or_default": "ASSUMED: std HashMap::entry().or_default() (wrapper of the same call)",
    "fn hm_append": "ASSUMED: std HashMap::entry().or_insert_with(Vec::new).extend() (wrapper of the same calls)",
    "fn from_utf8": "ASSUMED: std::str::from_utf8 decides an uninterpreted validity predicate and returns the same bytes",
    "fn str_bare": "ASSUMED: std str::trim / trim_end_matches / trim_matches chain = uninterpreted function `bare` (checked on samples by the witness scenario w_c02_dispatch only)",
    "fn starts_with": "ASSUMED: std <[u8]>::starts_with",
    "fn bytes_eq": "ASSUMED: byte-string pattern match = slice equality",
    "fn contains": "ASSUMED: bitflags contains = mask test",
    "fn set": "ASSUMED: bitflags set",
    "fn kind": "ASSUMED: io::Error::kind returns the kind given to io::Error::new",
    "fn vfmt_msg": "R5: the value of a dropped format!(..) is an arbitrary String (no contract depends on message text)",
    "fn vpanic_any": "obligation device: panic!/unreachable! in expression position become `requires false` (not an assumption)",
    "fn chain": "ASSUMED: std Read::chain builds Chain { first, second } (read order checked (bounded) by Kani k7_prepended_read)",
    "fn get_mut": "ASSUMED: std Chain::get_mut returns mutable references to (first, second)",
    "fn create_stream": "ASSUMED (rustls): src/tls.rs create_stream = ServerConnection::new + StreamOwned { conn, sock }; the TLS session continues the logical stream of the socket it wraps",
    "struct StreamOwned": "TRUSTED: rustls::StreamOwned is a Transport for the plaintext stream (TLS itself is outside every contract here)",
    "fn vpanic": "obligation device: panic!/unreachable! become `requires false` (not an assumption)",
    "fn default": "ASSUMED: derived Default of a crate struct (all fields None/empty)",
    "fn tls_certs": "ASSUMED: rustls peer certificate accessor (opaque)",
    "fn opt_to_vec": "ASSUMED: Option::map(|x| x.to_vec()) (wrapper of the same expression)",
    "fn auth_failed_msg": "ASSUMED: contents of a byte-string literal (wrapper returns the same literal)",
    "fn to_string": "ASSUMED: std Display of primitive integers/floats = decimal spec `dec` (checked (bounded) by native N2 over ~100000 values)",
    "std <Vec<T> as From<&'a [T]>>::from": "ASSUMED: std Vec::from(&[T]) copies the slice",
    "std String::as_bytes": "ASSUMED: std String::as_bytes = uninterpreted byte view str_bytes",
    "fn vals": "ASSUMED: iterator parameter of write_row yields its items in order (R8 monomorphisation)",
}


def scan_trusted(unit_text, unit_name, manifest=None):
    """Every assumption marker in the generated unit, with the item it is attached to and how it is backed."""
    out = []
    imported = {}
    for f in (manifest or {}).get("functions", []):
        if f.get("kind") == "imported-contract":
            imported["fn " + f["anchor"].rsplit("::", 1)[-1]] = "%s (%s)" % (
                os.path.basename(f.get("imported_from") or "?").replace(".vrs", ""), f["anchor"])
    lines = unit_text.splitlines()
    for i, l in enumerate(lines):
        if l.strip().startswith("// TRANSCRIBED:"):
            out.append("%s: transcribed dependency code (verified here, trusted to match its source) -> %s" % (
                unit_name, l.strip()[len("// TRANSCRIBED:"):].strip()))
        for marker in ("external_body", "assume_specification", "assume(", "admit(", "uninterp spec fn", "proof fn axiom_"):
            if marker in l and not l.strip().startswith("//"):
                # name = next line(s) with fn/struct
                name = l.strip()
                for j in range(i, min(i + 6, len(lines))):
                    m = re.search(r"\b(fn|struct)\s+([A-Za-z_0-9]+)", lines[j])
                    if m:
                        name = "%s %s" % (m.group(1), m.group(2))
                        break
                if marker == "assume_specification":
                    mm = re.search(r"assume_specification[^\[]*\[\s*(.*?)\s*\]\s*\(", l)
                    name = "std " + (mm.group(1) if mm else name)
                if marker == "uninterp spec fn":
                    how = "specification vocabulary (uninterpreted ghost view), not an assumption about code"
                elif marker == "external_body" and name in imported:
                    how = "IMPORTED contract: proved in unit %s, assumed here" % imported[name]
                elif name.startswith("struct ") and name not in BACKING:
                    how = "opaque dependency type"
                else:
                    how = BACKING.get(name, "ASSUMED (dependency stub)")
                out.append("%s: %s -> %s  [%s]" % (unit_name, marker.rstrip("("), name, how))
    return sorted(set(out))


def extracted_regions_clean(unit_text, manifest):
    """No assume/admit/external_body inside extracted function bodies or spliced proofs."""
    bad = []
    for f in manifest["functions"]:
        k = f["item_id"]
        a = unit_text.find("/*{item:%d*/" % k)
        b = unit_text.find("/*item:%d}*/" % k)
        seg = unit_text[a:b]
        for marker in ("assume(", "admit(", "external_body", "assume_specification"):
            if marker in seg:
                bad.append("%s contains %s" % (f["anchor"], marker))
    return bad


def verus_cmd(path, extra=None):
    return ["verus", path, "--multiple-errors", "60", "--output-json", "--time", "--error-format=json"] + (extra or [])


def run_unit(scratch, unit, prefixes, prop, tier, safety_default=None, drop_hints=None, extra_items=None, extra_fns=None):
    work = os.path.join(scratch, "verus-" + unit)
    os.makedirs(work, exist_ok=True)
    vrs = os.path.join(CONTRACTS, unit + ".vrs")
    out_rs = os.path.join(work, "unit.rs")
    out_mf = os.path.join(work, "unit.manifest.json")
    xenv = dict(os.environ)
    if drop_hints:
        xenv["XTRACT_DROP_HINTS"] = ",".join(sorted(drop_hints))
    if extra_items:
        xenv["XTRACT_EXTRA_ITEMS"] = ",".join(sorted(extra_items))
    if extra_fns:
        xenv["XTRACT_EXTRA_FNS"] = ",".join(sorted(extra_fns))
    rc, so, se, w0 = run([XTRACT, scratch, vrs, out_rs, out_mf], timeout=120, env=xenv)
    if rc != 0:
        raise Undecided("xtract %s: %s" % (unit, (se or so).strip()[-600:]))
    manifest = json.load(open(out_mf))
    unit_text = open(out_rs).read()
    unit_lines = unit_text.splitlines()
    n_faithful = check_faithful(unit_text, manifest)
    bad = extracted_regions_clean(unit_text, manifest)
    if bad:
        raise Undecided("assumption inside extracted code: " + "; ".join(bad))
    # per-function default clause for implicit safety obligations: `//@ safety [id]` is carried as a
    # clause of kind 'safety' in the manifest
    safety = {}
    for c in manifest.get("clauses", []):
        if c.get("kind") == "safety":
            safety[c["fn"]] = c["id"]
    cmd = verus_cmd(out_rs)
    rc, so, se, wall = run(cmd, cwd=work, timeout=1500, env=offline_env({"RUST_MIN_STACK": "268435456"}))
    if rc == -9:
        raise Undecided("verus timed out on unit %s" % unit)
    try:
        res = json.loads(so)
    except ValueError:
        raise Undecided("verus produced no JSON for unit %s: %s" % (unit, (se or so)[-800:]))
    vr = res.get("verification-results", {})
    failures, tool = parse_diagnostics(se, manifest, unit_lines, safety)
    bad_hint_fns = {t["hint_fn"] for t in tool if t.get("hint_fn")} - set(drop_hints or ())
    new_items = {t["extra_item"] for t in tool if t.get("extra_item")} - set(extra_items or ())
    new_fns = {t["extra_fn"] for t in tool if t.get("extra_fn")} - set(extra_fns or ())
    if bad_hint_fns or new_items or new_fns:
        return run_unit(scratch, unit, prefixes, prop, tier, safety_default, set(drop_hints or ()) | bad_hint_fns,
                        set(extra_items or ()) | new_items, set(extra_fns or ()) | new_fns)
    if vr.get("encountered-vir-error") or (not vr.get("success") and not failures and not tool):
        raise Undecided("verus could not process unit %s (dialect/type error): %s" % (unit, se[-1500:]))
    funcs = []
    for m in res.get("times-ms", {}).get("smt", {}).get("smt-run-module-times", []):
        for f in m.get("function-breakdown", []):
            funcs.append({"function": f["function"].replace("unit::", ""), "smt_ms": f["time-micros"] // 1000,
                          "rlimit": f.get("rlimit"), "success": f.get("success")})
    lost_hints = [h for f in manifest["functions"] for h in f.get("lost_hints", [])]
    lost_fns = {h["fn"] for h in lost_hints}
    # binders were added/removed and the renaming of the contract's locals is a guess (rule RN, heuristic form)
    lost_fns |= {f["anchor"] for f in manifest["functions"] if f.get("heuristic_renames")}
    # functions that call a helper extracted without a contract (introduced by the change): what they
    # can prove about the helper's result is nothing, so their failures need a witness as well
    auto_names = [f["anchor"].rsplit("::", 1)[-1] for f in manifest["functions"] if f.get("auto")]
    calls_auto = {f["anchor"] for f in manifest["functions"]
                  if any(re.search(r"\b%s\s*\(" % re.escape(a), f.get("text", "")) for a in auto_names)}
    auto_fns = {f["anchor"] for f in manifest["functions"] if f.get("auto")}
    for f in failures:
        # a proof hint of this function could not be re-attached to the changed code: a failing
        # obligation may be the missing hint, not the property -> needs a witness to count
        f["weak"] = f.get("function") in lost_fns or f.get("function") in calls_auto or f.get("function") in auto_fns
    extracted = [{"anchor": f["anchor"], "file": f["file"], "line": f["line"], "kind": f["kind"],
                  "sha256": sha256(f["text"])[:16]} for f in manifest["functions"]]
    rules = {}
    for e in manifest["edits"]:
        rules[e["rule"]] = rules.get(e["rule"], 0) + 1
    # per-function metadata for the call-graph closure (which functions a property's functions rest on)
    fnmeta = []
    for f in manifest["functions"]:
        if f.get("kind") not in ("fn",):
            continue
        k = f["item_id"]
        a = unit_text.find("/*{item:%d*/" % k)
        b = unit_text.find("/*item:%d}*/" % k)
        fnmeta.append({"unit": unit, "anchor": f["anchor"], "seg": unit_text[a:b] if a >= 0 and b >= 0 else f.get("text", ""),
                       "clauses": sorted({c["id"] for c in manifest.get("clauses", []) if c.get("fn") == f["anchor"]})})
    return {
        "fnmeta": fnmeta,
        "unit": unit, "manifest": manifest, "failures": failures, "tool": tool,
        "verified": vr.get("verified", 0), "errors": vr.get("errors", 0),
        "wall_s": wall, "cmd": " ".join(cmd).replace(work, "<scratch>/verus-" + unit),
        "functions": funcs, "extracted": extracted, "rules": rules, "faithful_items": n_faithful,
        "trusted": scan_trusted(unit_text, unit, manifest), "unit_text": unit_text, "work": work, "lost_hints": lost_hints,
        "out_rs": out_rs,
    }


def run_canaries(scratch, unit, res):
    """Vacuity guard: `assert(false)` at the entry of every extracted function and at the end of every
    loop body must FAIL; one that verifies means a contradictory requires/invariant."""
    work = res["work"]
    text = res["unit_text"]
    manifest = res["manifest"]
    lines = text.splitlines()
    n = 0
    can_lines = {}
    # entry canary: after the `{` that follows the last spliced signature clause == first line of body.
    # xtract marks the body start for us by emitting the token sequence `/*item-body*/`.
    out = []
    for i, l in enumerate(lines):
        if "/*@body*/" in l:
            n += 1
            l = l.replace("/*@body*/", "/*@body*/ assert(false); ", 1)
            can_lines[len(out) + 1] = "entry"
        if "/*@loopend*/" in l:
            n += 1
            l = l.replace("/*@loopend*/", " assert(false); /*@loopend*/", 1)
            can_lines[len(out) + 1] = "loop-end"
        out.append(l)
    if n == 0:
        return {"canaries": 0, "vacuous": ["unit %s: no canary sites" % unit]}
    path = os.path.join(work, "unit_canary.rs")
    open(path, "w").write("\n".join(out) + "\n")
    rc, so, se, wall = run(verus_cmd(path), cwd=work, timeout=1500, env=offline_env({"RUST_MIN_STACK": "268435456"}))
    failed_lines = set()
    for raw in se.splitlines():
        raw = raw.strip()
        if raw.startswith("{"):
            try:
                d = json.loads(raw)
            except ValueError:
                continue
            if d.get("message") == "assertion failed":
                for s in d.get("spans", []):
                    if s.get("is_primary"):
                        failed_lines.add(s["line_start"])
    vac = []
    for ln, kind in can_lines.items():
        if ln not in failed_lines:
            f = fn_of_line(manifest, out, ln)
            vac.append("unit %s: %s canary in %s verified (contradictory precondition/invariant?)" % (
                unit, kind, f["anchor"] if f else "?"))
    return {"canaries": n, "vacuous": vac, "wall_s": wall}


def common_known(f):
    import common
    return common.match_any_known(common.load_known(), f) is not None


def run_units(scratch, units, prop, tier, canaries=True):
    """units: list of (unit name, [clause prefixes that count for prop besides '<prop>.'])."""
    out = {"failures": [], "tool": [], "vacuous": [], "units": [], "cmds": [], "trusted": [], "assumptions": [],
           "obligations": 0, "discharged": 0, "samples": [], "other_prop": [], "fnmeta": []}
    for unit, prefixes in units:
        res = run_unit(scratch, unit, prefixes, prop, tier)
        out["fnmeta"] += res["fnmeta"]
        pref = [prop + "."] + list(prefixes or [])
        mine, others = [], []
        for f in res["failures"]:
            c = f.get("clause") or ""
            f["unit"] = unit
            (mine if any(c.startswith(p) for p in pref) else others).append(f)
        # a failure that cannot be attributed to any clause is a machinery problem, not a violation
        unattributed = [f for f in others if not f.get("clause")]
        others = [f for f in others if f.get("clause")]
        out["failures"] += mine
        out["other_prop"] += others
        out["tool"] += res["tool"] + [dict(f, kind="tool", description="unattributed: " + f["description"]) for f in unattributed]
        can = run_canaries(scratch, unit, res) if canaries else {"vacuous": [], "canaries": 0}
        out["vacuous"] += can["vacuous"]
        out["cmds"].append("xtract <snapshot of /repo> contracts/%s.vrs unit.rs unit.manifest.json && %s" % (unit, res["cmd"]))
        out["trusted"] += res["trusted"]
        # Proof items of this unit that fail ONLY at obligations recorded as open known findings (of any
        # property) or at clauses of other properties are not obligations of this property: they are
        # reported separately (`items_not_counted`), so that obligations == discharged exactly when
        # every obligation this check claims is discharged.
        by_fn = {}
        for f in res["failures"]:
            by_fn.setdefault(f.get("function"), []).append(f)
        not_counted = 0
        for fn, fs in by_fn.items():
            if all((f in others) or common_known(f) for f in fs):
                not_counted += 1
        # Verus counts proof ITEMS (a function body and each of its loops are separate items): when every
        # failing function of the unit is excluded, all failed items are
        not_counted = res["errors"] if (by_fn and not_counted == len(by_fn)) else min(not_counted, res["errors"])
        out["obligations"] += res["verified"] + res["errors"] - not_counted
        out["discharged"] += res["verified"]
        out["items_not_counted"] = out.get("items_not_counted", 0) + not_counted
        out["units"].append({
            "engine": "verus/z3", "unit": unit, "proof_items_verified": res["verified"], "proof_items_failed": res["errors"],
            "functions_under_contract": res["extracted"], "rewrite_rules_fired": res["rules"],
            "faithfulness_check_items": res["faithful_items"], "canaries": can["canaries"],
            "canaries_failed_as_required": can["canaries"] - len(can["vacuous"]),
            "contract_clauses": len(res["manifest"]["clauses"]), "lost_proof_hints": res["lost_hints"],
            "wall_s": round(res["wall_s"], 2),
            "slowest": sorted(res["functions"], key=lambda f: -f["smt_ms"])[:8],
        })
        for c in res["manifest"]["clauses"]:
            if any(c["id"].startswith(p) for p in pref) and len(out["samples"]) < 14:
                out["samples"].append({"clause": c["id"], "kind": c["kind"], "function": c["fn"], "statement": c["text"][:400],
                                       "engine": "verus", "unit": unit})
    out["assumptions"] = sorted(set(out["trusted"]))
    return out


# ---------------------------------------------------------------------------------------------------------------
# Call-graph closure (DESIGN 11.2 "rests-on closure"). Verification is modular: the proof of a function sees only
# its callees' contracts, so a property carried by function F silently rests on every clause of every function F
# calls. A change that breaks a callee fails the CALLEE's clause -- which may carry another property's name.
# For a property P: roots = functions (outside the hub unit) that carry a clause of P; closure = everything they
# call, transitively, among the functions under contract. Every clause of a function in the closure counts for P.
HUB_UNITS = ("u5_hub",)


# which source file may call into which: a method-name match (`.flush(`) is only taken as a call when the callee's
# file is at the same or a lower layer than the caller's (the transport never calls the packet layer, the packet
# layer never calls the result writers)
LAYER = {"src/lib.rs": 5, "src/resultset.rs": 4, "src/writers.rs": 3, "src/params.rs": 3, "src/value/encode.rs": 3,
         "src/value/decode.rs": 3, "src/commands.rs": 3, "src/packet.rs": 2, "src/tls.rs": 1}


def _layer(anchor):
    return LAYER.get(anchor.split("::")[0], 3)


def _split_anchor(anchor):
    parts = anchor.split("::")
    name = parts[-1]
    typ = parts[-2] if len(parts) >= 3 else None
    return typ, name


def call_graph(fnmeta):
    metas = {}
    for m in fnmeta:
        metas.setdefault(m["anchor"], m)       # the same function may be extracted by several units
    anchors = sorted(metas)
    pats = {}
    for a in anchors:
        typ, name = _split_anchor(a)
        tf = r"(?:\s*::\s*<[^>()]*>)?"
        if typ:
            pats[a] = (typ, re.compile(r"(?:\b%s(?:\s*<[^>()]*>)?\s*::\s*%s\b)|(?:\.\s*%s%s\s*\()" % (re.escape(typ), re.escape(name), re.escape(name), tf)),
                       re.compile(r"\bSelf\s*::\s*%s\b" % re.escape(name)))
        else:
            pats[a] = (None, re.compile(r"(?<![.\w])%s%s\s*\(" % (re.escape(name), tf)), None)
    calls = {a: set() for a in anchors}
    for a in anchors:
        seg = metas[a]["seg"]
        # the function's own header must not count as a call of itself
        atyp, aname = _split_anchor(a)
        for b in anchors:
            if b == a or _layer(b) > _layer(a):
                continue
            typ, pat, selfpat = pats[b]
            if pat.search(seg) or (selfpat is not None and typ == atyp and selfpat.search(seg)):
                # `fn name(` of the definition itself is not a call
                if typ is None and re.search(r"\bfn\s+%s\b" % re.escape(_split_anchor(b)[1]), seg) and not pat.search(re.sub(r"\bfn\s+\w+", "fn", seg)):
                    continue
                calls[a].add(b)
    return metas, calls


def rests_on(fnmeta, prefixes):
    """(roots, closure): functions carrying a clause with one of `prefixes` (hub functions excluded as roots),
    and everything under contract they call, transitively."""
    metas, calls = call_graph(fnmeta)
    roots = {a for a, m in metas.items() if m["unit"] not in HUB_UNITS
             and any(c.startswith(p) for c in m["clauses"] for p in prefixes)}
    seen, todo = set(roots), list(roots)
    while todo:
        a = todo.pop()
        for b in calls.get(a, ()):
            if b not in seen and metas[b]["unit"] not in HUB_UNITS:
                seen.add(b)
                todo.append(b)
    return roots, seen
