#!/bin/sh
# usage: intake_seed.sh <property> <worktree suffix> <seed id>
# confirm a sub-agent's change in its worktree (suite passes with it, demo fails with / passes without),
# store it under /verif/seeded/<id>/ and remove the worktree. Nothing is stored unless all three hold.
p=$1; sfx=$2; id=$3; wt=/tmp/mut-${p}${sfx}
out=$(/verif/lib/confirm_seed.sh $wt $p 2>&1)
suite=$(echo "$out" | sed -n '/== suite/,/== demo with/p')
with=$(echo "$out" | sed -n '/== demo with change/,/== demo without/p')
without=$(echo "$out" | sed -n '/== demo without change/,$p')
s_ok=no; echo "$suite" | grep -q "test result: ok" && ! echo "$suite" | grep -qE "test result: FAILED|^error" && s_ok=yes
w_fail=no; echo "$with" | grep -qE "test result: FAILED" && w_fail=yes
wo_ok=no; echo "$without" | grep -q "test result: ok" && ! echo "$without" | grep -q "test result: FAILED" && wo_ok=yes
echo "$id: suite-passes-with-change=$s_ok demo-fails-with=$w_fail demo-passes-without=$wo_ok; $(echo "$out" | tail -2 | tr '\n' ' ')"
rm -rf $wt/target
if [ $s_ok = yes ] && [ $w_fail = yes ] && [ $wo_ok = yes ]; then
  /verif/lib/store_seed.sh $wt $p $id > /dev/null
  git -C /repo worktree remove --force $wt
  echo "$id stored"
else
  echo "$id NOT stored; worktree kept at $wt"; echo "$out" | tail -25
fi
