"""Which units / harness groups decide which property (DESIGN.md sections 5 and 6).

kani:  list of (group file stem, harness-name filter or None)
verus: list of unit names (contracts/<unit>.vrs)
Only failures whose clause id starts with '<property>.' count for that property; a harness or
unit may serve several properties.
"""

U1_WRITE = ["U1.write", "U1.end", "U1.flush", "U1.new"]
U2 = ("u2_writers", ["U2."])
U3 = ("u3_resultset", ["U3."])

PROPS = {
    "dev-k4v": {"title": "dev", "kani": [("k4_values", None)], "verus": []},
    "dev-k2": {"title": "dev", "kani": [("k2_commands", None)], "verus": []},
    "dev-k3": {"title": "dev", "kani": [("k3_decode", None)], "verus": []},
    "dev-k5": {"title": "dev", "kani": [("k5_errors", None)], "verus": []},
    "dev-k6": {"title": "dev", "kani": [("k6_deps", None)], "verus": []},
    "C01": {
        "title": "Inbound packets are reassembled exactly under every transport chunking",
        "kani": [("k1_frames", None)],
        "verus": [("u1_packet", ["U1.next"])],
    },
    "C04": {
        "title": "Outbound bytes are well-framed, including messages of 16 MiB and more",
        "kani": [],
        "verus": [("u1_packet", U1_WRITE)],
    },
    "C08": {
        "title": "Prepared-statement parameters are decoded to exactly what the client bound",
        "kani": [("k2_commands", ["k2_parse_stmt"]), ("k3_decode", None)],
        "verus": [("u4_params", ["U4."])],
    },
    "C09": {
        "title": "Column metadata reaches the client exactly as the shim declared it",
        "kani": [("k6_deps", ["k6_write_lenenc_int", "k6_write_lenenc_str", "k6_byteorder_le"])],
        "verus": [U2, U3],
    },
    "C13": {
        "title": "Errors reach the client with the exact code, SQLSTATE and message",
        "kani": [("k5_errors", None)],
        "verus": [U2, U3],
    },
    "C14": {
        "title": "Completion counts arrive exactly, including for zero-column resultsets",
        "kani": [("k6_deps", ["k6_write_lenenc_int", "k6_read_lenenc_int", "k6_byteorder_le"])],
        "verus": [U2, U3],
    },
    "C15": {
        "title": "Integer results are exact or refused, never silently altered",
        "kani": [("k4_ints", None)],
        "verus": [],
    },
}
