"""Which units / harness groups decide which property (DESIGN.md sections 5 and 6).

kani:  list of (group file stem, harness-name filter or None)
verus: list of (unit name, [clause-id prefixes that count for the property besides '<property>.'])
Only failures whose clause id matches count for that property; a harness or unit may serve several
properties (a failure belonging to another property is listed in the evidence, not raised here).
"""

U1 = "u1_packet"
U2 = "u2_writers"
U3 = "u3_resultset"
U4 = "u4_params"
U4S = "u4_params_safety"
U5 = "u5_hub"
U6 = "u6_text"
U7 = "u7_reassembly"
U8 = "u8_tls"

# units verified as watch-only auxiliaries by every check that has a witness search (U4S is left out:
# it repeats U4's function without preconditions and fails by design at the known findings D9)
ALL_UNITS = [U1, U2, U3, U4, U5, U6, U7, U8]

PROPS = {
    "C01": {
        "witness": ("w_server", ['w_c01_chunkings', 'w_c12_flush', 'w_c19_faults']),
        "title": "Inbound packets are reassembled exactly under every transport chunking",
        "kani": [("k1_frames", None)],
        "native": ["n1_packet"],
        "verus": [(U1, ["U1.next"]), (U7, ["C05.packet", "C20.packet"]), (U5, ["C02.run.log", "U5.run"])],
    },
    "C02": {
        # a command that is not reassembled exactly (C01), or whose fragments are wrongly judged out of
        # order, is a command that does not reach its callback verbatim
        "also": ["C01.", "C05.packet", "C20.packet"],
        "witness": ("w_server", ['w_c02_dispatch', 'w_c20_malformed', 'w_c01_chunkings']),
        "title": "Each client command reaches exactly the right shim callback, verbatim",
        "kani": [("k2_commands", ["k2_parse_text_03", "k2_parse_text_04", "k2_parse_text_02", "k2_parse_text_16", "k2_parse_stmt_17", "k2_parse_stmt_18", "k2_parse_stmt_19", "k2_parse_other_01", "k2_parse_other_0e", "k2_parse_other_rest"]), ("k1_frames", None)],
        "native": ["n1_packet"],
        "verus": [(U5, ["U5."]), (U1, ["U1.next"]), (U7, [])],
    },
    "C03": {
        "witness": ("w_server", ['w_c03_responses', 'w_c07_binary', 'w_c14_counts']),
        "title": "Exactly one complete, protocol-conformant response per command",
        "kani": [],
        # a response that is mis-framed (C04) or carries wrong sequence ids (C05) is not one a conformant
        # client accepts, and shifts the next reply
        "also": ["C04.", "C05."],
        "verus": [(U2, ["U2.", "C13.", "C14.", "C09."]), (U3, ["U3.", "C13.", "C14.", "C09.", "C07.row", "C10.reply"]), (U5, ["U5.", "C02.run.log"]), (U1, ["U1.write", "U1.end", "U1.flush"])],
    },
    "C04": {
        "witness": ("w_server", ['w_c04_big']),
        "title": "Outbound bytes are well-framed, including messages of 16 MiB and more",
        "kani": [("k6_deps", ["k6_byteorder_le"])],
        # C07.row.packet: the buffered binary row reaches the connection completely (write_all, not one
        # possibly short write) -- "a row larger than 16 MiB arrives intact"
        "verus": [(U1, ["U1.write", "U1.end", "U1.flush", "U1.new"]), (U3, ["C07.row.packet"])],
    },
    "C05": {
        "witness": ("w_server", ['w_c05_seq']),
        "title": "Response sequence ids continue the request's and wrap modulo 256",
        "kani": [("k1_frames", None)],
        "native": ["n1_packet"],
        "verus": [(U1, ["C04.end", "C04.write", "U1.end"]), (U7, ["C01.packet"]), (U5, [])],
    },
    "C06": {
        "native": ["n2_text"],
        "witness": ("w_server", ['w_c03_responses']),
        "title": "Text-protocol result values arrive unchanged",
        "kani": [("k6_deps", ["k6_write_lenenc_int", "k6_write_lenenc_str"]), ("k4_values", ["k4_bytes_text", "k4_option_text", "k4_forwarders", "k4_forwarders_str"])],
        "verus": [(U3, ["U3.write_col", "U3.end_row", "U3.write_row", "C07.row"]), (U6, [])],
    },
    "C07": {
        "witness": ("w_server", ['w_c07_binary']),
        "title": "Binary-protocol rows arrive unchanged, with an exact NULL bitmap",
        "kani": [("k4_ints", None), ("k4_values", None), ("k6_deps", ["k6_write_lenenc_int", "k6_write_lenenc_str", "k6_byteorder_le"])],
        # rows are decoded "using the advertised column types and flags": the column definitions count
        "verus": [(U3, ["U3.write_col", "U3.end_row", "C03.shape"]), (U2, ["C09.coldefs", "C09.count"])],
    },
    "C08": {
        # "exactly as many parameters as the statement declared": the registry entry made by the PREPARE reply
        "also": ["C10.reply", "U3.reply"],
        "witness": ("w_server", ['w_c08_params', 'w_c10_registry', 'w_c16_c17_stmt']),
        "title": "Prepared-statement parameters are decoded to exactly what the client bound",
        "kani": [("k2_commands", ["k2_parse_stmt_17", "k2_parse_stmt_18", "k2_parse_stmt_19"]), ("k3_decode", None)],
        "verus": [(U4, ["U4."]), (U3, ["U3.reply", "C10.reply"])],
    },
    "C09": {
        "witness": ("w_server", ['w_c09_meta']),
        "title": "Column metadata reaches the client exactly as the shim declared it",
        "kani": [("k6_deps", ["k6_write_lenenc_int", "k6_write_lenenc_str", "k6_byteorder_le"])],
        "verus": [(U2, ["U2."]), (U3, ["U3.pre", "U3.start", "U3.rw.new", "U3.new"])],
    },
    "C10": {
        "witness": ("w_server", ['w_c10_registry', 'w_c02_dispatch']),
        "title": "Statement ids are executable exactly between PREPARE reply and CLOSE",
        "kani": [],
        "verus": [(U3, ["U3.reply"]), (U5, ["U5.", "C17.clear", "C17.append", "C02.run.log"])],
    },
    "C11": {
        "witness": ("w_server", ['w_c11_handshake']),
        "title": "Greeting is well-formed and no command is served before the shim authenticates",
        "kani": [("k2_commands", ["k2_handshake_fixed", "k2_handshake_user", "k2_handshake_user_any"]), ("k5_errors", ["k5_emitted"])],
        "verus": [(U5, ["U5.", "C12.init", "C05.init", "C12.run_on"])],
    },
    "C12": {
        # "answered ... and those bytes have been flushed": the reply must have been handed to the transport
        # completely (a short write that is not continued leaves the server waiting while it owes bytes)
        "also": ["C04.end", "C04.write"],
        "witness": ("w_server", ['w_c12_flush', 'w_c04_big']),
        "title": "The server never waits for input while it owes a flushed reply",
        "kani": [("k7_tls", ["k7_prepended_write", "k7_switchable_plain"])],
        "verus": [(U1, ["U1.next", "U1.flush", "U1.end", "U1.write"]), (U8, ["U8."]), (U5, ["U5."])],
    },
    "C13": {
        "witness": ("w_server", ['w_c13_errors', 'w_c03_responses']),
        "title": "Errors reach the client with the exact code, SQLSTATE and message",
        "kani": [("k5_errors", None)],
        "verus": [(U2, ["U2."]), (U3, ["U3.pre", "U3.finish"])],
    },
    "C14": {
        "witness": ("w_server", ['w_c14_counts', 'w_c03_responses']),
        "title": "Completion counts arrive exactly, including for zero-column resultsets",
        "kani": [("k6_deps", ["k6_write_lenenc_int", "k6_read_lenenc_int", "k6_byteorder_le"])],
        "verus": [(U2, ["U2."]), (U3, ["U3.pre", "U3.finish", "U3.end_row", "C03.finish", "C03.finalize", "C07.row.packet"])],
    },
    "C15": {
        # the client decodes with the ADVERTISED column type and flags: the column definitions (U2) are
        # part of what "the client decodes exactly the same number" depends on
        "witness": ("w_server", ['w_c15_ints', 'w_c07_binary']),
        "title": "Integer results are exact or refused, never silently altered",
        "kani": [("k4_ints", None)],
        "verus": [(U2, ["C09.coldefs"])],
    },
    "C16": {
        "witness": ("w_server", ['w_c16_c17_stmt', 'w_c10_registry']),
        "title": "Bound parameter types persist per statement across executions",
        "kani": [],
        # re-preparing an id starts it afresh (C10): stale bound types would be "types of another statement"
        "also": ["C10.reply", "U3.reply"],
        "verus": [(U4, ["U4.", "C08.next"]), (U5, ["C10.", "C17.clear", "C17.append", "C02.run.log", "U5.run"]), (U3, ["U3.reply"])],
    },
    "C17": {
        "witness": ("w_server", ['w_c16_c17_stmt', 'w_c10_registry']),
        "title": "Long data is concatenated in order, delivered once, and never leaks",
        "kani": [("k2_commands", ["k2_parse_stmt_17", "k2_parse_stmt_18", "k2_parse_stmt_19"])],
        "also": ["C10.reply", "U3.reply"],
        "verus": [(U4, ["U4.", "C08.next"]), (U5, ["C10.", "C02.run.log", "U5.run"]), (U3, ["U3.reply"])],
    },
    "C18": {
        # "commands are served exactly as over plaintext": after the upgrade flushes must still reach the socket
        "also": ["C12.prepend"],
        "witness": ("w_server", ['w_c04_big', 'w_c11_handshake']),
        "title": "TLS upgrade loses no bytes and leaks no plaintext",
        "kani": [("k7_tls", None)],
        "verus": [(U1, ["U1.tls", "C04.end", "C04.write", "U1.end", "U1.write"]), (U8, ["U8.", "C12.prepend", "C12.route", "C19.switch"]), (U5, ["C12.init", "C11.auth"])],
    },
    "C19": {
        "witness": ("w_server", ['w_c19_faults']),
        "title": "Connection end and transport faults are reported, never masked",
        "kani": [],
        "verus": [(U1, ["C01.next.err", "C01.next.none"]), (U2, ["U2."]), (U3, ["U3."]), (U5, ["U5.", "C12.run", "C20.run", "C20.init", "C03.on_init"])],
    },
    "C20": {
        "witness": ("w_server", ['w_c20_malformed', 'w_c19_faults', 'w_c01_chunkings', 'w_c12_flush']),
        "title": "No client byte sequence can crash or wedge a connection",
        "kani": [("k1_frames", None), ("k2_commands", None), ("k3_decode", ["k3_parse_fixed", "k3_parse_bytes", "k3_parse_temporal"])],
        "native": ["n1_packet"],
        "verus": [(U1, ["U1.next", "C01.next"]), (U7, ["C01.packet"]), (U4S, ["U4."]), (U5, ["U5.", "C12.run", "C12.init"])],
    },
}


# ---- systematic property inclusions (DESIGN 11.2 "also") --------------------------------------------------------
# What a client decodes of a RESPONSE (values, metadata, errors, counts, the greeting) arrives only if the bytes are
# framed (C04) and numbered (C05) correctly: "data of any length" / "a row larger than 16 MiB arrives intact" are
# the same statement seen from two properties. Seeded change C06-d (a text row of exactly 0xFFFFFF bytes, broken in
# PacketConn::write) was missed by C06's check until its framing clauses counted for C06.
for _p in ("C06", "C07", "C09", "C11", "C13", "C14", "C15"):
    _a = PROPS[_p].setdefault("also", [])
    for _c in ("C04.", "C05."):
        if _c not in _a:
            _a.append(_c)
# What the shim sees of a REQUEST (parameters, bound types, long data, statement ids) is what was reassembled from
# the client's packets (C01; packet(): U7) before it was parsed.
for _p in ("C08", "C10", "C16", "C17"):
    _a = PROPS[_p].setdefault("also", [])
    for _c in ("C01.", "C05.packet", "C20.packet"):
        if _c not in _a:
            _a.append(_c)

# An integer result is "decoded to exactly the same number" only if the binary ROW around it is well-formed: the
# row header, the NULL bitmap and the cell boundaries (C07) are part of what C15 rests on (seeded change C15-d:
# stale NULL bits of the previous row hide the next row's integers).
PROPS["C15"]["also"] += ["C07.row", "C07.bitmap", "C07.notnull", "C03.shape", "U3.write_col", "U3.end_row"]

# "Binary rows arrive unchanged ... a value of a type the column cannot carry is refused": the integer cells of a
# binary row are exactly C15's subject (seeded change C07-e: the generic Value::Int ladder, caught by c15_generic_int
# under [C15.exact] but first not counted for C07).
PROPS["C07"].setdefault("also", [])
PROPS["C07"]["also"] += ["C15."]
