"""Which units / harness groups decide which property (DESIGN.md sections 5 and 6).

kani:  list of (group file stem, harness-name filter or None)
verus: list of unit names (contracts/<unit>.vrs)
Only failures whose clause id starts with '<property>.' count for that property; a harness or
unit may serve several properties.
"""

PROPS = {
    "C15": {
        "title": "Integer results are exact or refused, never silently altered",
        "kani": [("k4_ints", None)],
        "verus": [],
    },
}
