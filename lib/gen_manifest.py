#!/usr/bin/env python3
"""Regenerates /verif/MANIFEST.json from lib/registry.py + lib/manifest_meta.py."""
import json, os, sys
sys.path.insert(0, os.path.dirname(os.path.abspath(__file__)))
import registry, manifest_meta as mm
V = os.path.dirname(os.path.dirname(os.path.abspath(__file__)))
props = [json.loads(l) for l in open(os.path.join(V, "properties.jsonl"))]
checks, na = [], []
for p in props:
    pid = p["id"]
    if pid in registry.PROPS and pid in mm.CLAIMS:
        c = mm.CLAIMS[pid]
        checks.append({
            "property_id": pid,
            "quick_cmd": "./check %s --tier quick" % pid,
            "thorough_cmd": "./check %s --tier thorough" % pid,
            "evidence_file": "/verif/evidence/%s.json" % pid,
            "replay_cmd_template": "./check %s --replay {path}" % pid,
            "engine": c["engine"],
            "level_claimed": {"category": "proof", "text": c["text"], "design_ref": c["design_ref"]},
            "level_note": c["note"],
            "technique": c["technique"],
        })
    else:
        na.append({"property_id": pid, "reason": mm.NOT_APPLICABLE.get(pid, "check not built yet in this session; see DESIGN.md section 9")})
m = {
    "version": 1,
    "setup_cmd": "./setup.sh",
    "hooks": mm.HOOKS,
    "engines": mm.ENGINES,
    "checks": checks,
    "notes": mm.NOTES,
    "not_applicable": na,
}
json.dump(m, open(os.path.join(V, "MANIFEST.json"), "w"), indent=1)
open(os.path.join(V, "MANIFEST.json"), "a").write("\n")
print("claimed:", [c["property_id"] for c in checks]); print("not applicable:", [n["property_id"] for n in na])
