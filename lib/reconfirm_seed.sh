#!/bin/sh
# usage: reconfirm_seed.sh <seed id>   -- from the STORED files only: fresh worktree of /repo, apply patch.diff, copy the
# demonstration, run it with the change (must fail) and without (must pass). Does not run the whole suite.
id=$1; p=${id%-*}; d=/verif/seeded/$id; wt=/tmp/reconf-$id-$$
git -C /repo worktree add -q --detach $wt HEAD || exit 2
cd $wt && git apply $d/patch.diff || { echo "$id: patch does not apply"; git -C /repo worktree remove --force $wt; exit 2; }
cp $d/demo_$p.rs tests/
export CARGO_TARGET_DIR=/tmp/reconf-target CARGO_NET_OFFLINE=true
w=$(cargo test --offline --test demo_$p 2>&1 | grep -E "^test result|error(\[|:)" | head -3 | tr '\n' ' ')
git apply -R $d/patch.diff
find src -name '*.rs' -exec touch {} +
wo=$(cargo test --offline --test demo_$p 2>&1 | grep -E "^test result|error(\[|:)" | head -3 | tr '\n' ' ')
echo "$id | with: $w | without: $wo"
cd /; git -C /repo worktree remove --force $wt
