#!/bin/sh
# Build the framework from files on disk only (offline). Run once after a fresh restore.
set -e
cd "$(dirname "$0")"
export CARGO_NET_OFFLINE=true
mkdir -p .cache evidence replays
# xtract (syn-based extractor for the Verus leg)
if [ -d xtract ]; then
  (cd xtract && cargo build --release --offline 2>&1 | tail -3)
fi
# warm the Kani dependency cache and the native-replay dependency cache
python3 lib/warm.py
