// K2 (commands): contracts on the nom command parsers of src/commands.rs -- the seam U5 (hub)
// assumes for `commands::parse` and `commands::client_handshake`.
// Payloads have SYMBOLIC LENGTH up to 2^40 with lazy contents; the parsers do not loop over the
// payload, so these are complete proofs. Exception: the NUL scan for the user name goes through
// nom's FindSubstring -> memchr, whose CPU-feature dispatch (inline asm) Kani cannot execute; it is
// replaced by its specification ("index of the first occurrence") and the scan is bounded.
//
//@ group k2_commands
//@ inject src/commands.rs
//@ default-clause C20.parse.nopanic
//@ harness k2_parse_text_03     tier=quick kind=complete fn=src/commands.rs::parse(COM_QUERY)
//@ harness k2_parse_text_04     tier=quick kind=complete fn=src/commands.rs::parse(COM_FIELD_LIST)
//@ harness k2_parse_text_02     tier=quick kind=complete fn=src/commands.rs::parse(COM_INIT_DB)
//@ harness k2_parse_text_16     tier=quick kind=complete fn=src/commands.rs::parse(COM_STMT_PREPARE)
//@ harness k2_parse_stmt_17     tier=quick kind=complete fn=src/commands.rs::{parse,execute}(COM_STMT_EXECUTE)
//@ harness k2_parse_stmt_18     tier=quick kind=complete fn=src/commands.rs::{parse,send_long_data}(COM_STMT_SEND_LONG_DATA)
//@ harness k2_parse_stmt_19     tier=quick kind=complete fn=src/commands.rs::parse(COM_STMT_CLOSE)
//@ harness k2_parse_other_01    tier=quick kind=complete fn=src/commands.rs::parse(COM_QUIT)
//@ harness k2_parse_other_0e    tier=quick kind=complete fn=src/commands.rs::parse(COM_PING)
//@ harness k2_parse_other_rest  tier=quick kind=complete fn=src/commands.rs::parse(every-other-first-byte,empty-payload)
//@ harness k2_handshake_fixed  tier=quick kind=complete fn=src/commands.rs::client_handshake(fixed-offset-fields,SSL-request-path)
//@ harness k2_handshake_user   tier=quick kind=bounded bound=scanned-region-at-most-12-bytes,memchr-replaced-by-its-specification fn=src/commands.rs::client_handshake(user-name)
//@ harness k2_handshake_user_any tier=quick kind=complete fn=src/commands.rs::client_handshake(user-name,any-length)
//@ clause C02.parse.table    parse(p) follows the command table: byte -> variant, text commands carry p[1..] by pointer and length, ids little-endian at fixed offsets
//@ clause C02.parse.reject   unknown command bytes, empty payloads and truncated fixed parts yield Err (never a variant)
//@ clause C08.execute        EXECUTE: stmt = le32(p[1..5]), flags and iteration count skipped, params = p[10..]
//@ clause C17.longdata       SEND_LONG_DATA: stmt = le32(p[1..5]), param = le16(p[5..7]), data = p[7..]
//@ clause C11.handshake.fixed  capabilities / max packet size / collation read from their fixed offsets in both layouts; SSL request yields no user name; short input => Err
//@ clause C11.handshake.user   user name = the bytes up to the first NUL after the fixed part, by pointer and length; no NUL => Err
//@ clause C20.parse.nopanic  no payload makes the parsers panic
#![allow(unused_imports)]
use crate::commands::{client_handshake, parse, Command};
use crate::myc::constants::CapabilityFlags;
use crate::verif_kani_common::*;

#[cfg(kani)]
#[kani::proof]
#[kani::stub(std::fmt::format, fmt_stub)]
#[kani::unwind(6)]
pub fn k2_parse_text_03() {
    let (ok, n) = k2_parse(Some(0x03));
    vk_cover!(ok && n > 70000, "cover: a payload longer than 70000 bytes is accepted");
}
#[cfg(kani)]
#[kani::proof]
#[kani::stub(std::fmt::format, fmt_stub)]
#[kani::unwind(6)]
pub fn k2_parse_text_04() {
    let (ok, n) = k2_parse(Some(0x04));
    vk_cover!(ok && n > 70000, "cover: a payload longer than 70000 bytes is accepted");
}
#[cfg(kani)]
#[kani::proof]
#[kani::stub(std::fmt::format, fmt_stub)]
#[kani::unwind(6)]
pub fn k2_parse_text_02() {
    let (ok, n) = k2_parse(Some(0x02));
    vk_cover!(ok && n > 70000, "cover: a payload longer than 70000 bytes is accepted");
}
#[cfg(kani)]
#[kani::proof]
#[kani::stub(std::fmt::format, fmt_stub)]
#[kani::unwind(6)]
pub fn k2_parse_text_16() {
    let (ok, n) = k2_parse(Some(0x16));
    vk_cover!(ok && n > 70000, "cover: a payload longer than 70000 bytes is accepted");
}
#[cfg(kani)]
#[kani::proof]
#[kani::stub(std::fmt::format, fmt_stub)]
#[kani::unwind(6)]
pub fn k2_parse_stmt_17() {
    let (ok, n) = k2_parse(Some(0x17));
    vk_cover!(ok && n > 70000, "cover: a payload longer than 70000 bytes is accepted");
}
#[cfg(kani)]
#[kani::proof]
#[kani::stub(std::fmt::format, fmt_stub)]
#[kani::unwind(6)]
pub fn k2_parse_stmt_18() {
    let (ok, n) = k2_parse(Some(0x18));
    vk_cover!(ok && n > 70000, "cover: a payload longer than 70000 bytes is accepted");
}
#[cfg(kani)]
#[kani::proof]
#[kani::stub(std::fmt::format, fmt_stub)]
#[kani::unwind(6)]
pub fn k2_parse_stmt_19() {
    let (ok, n) = k2_parse(Some(0x19));
    vk_cover!(ok && n > 70000, "cover: a payload longer than 70000 bytes is accepted");
}
#[cfg(kani)]
#[kani::proof]
#[kani::stub(std::fmt::format, fmt_stub)]
#[kani::unwind(6)]
pub fn k2_parse_other_01() {
    let (ok, n) = k2_parse(Some(0x01));
    vk_cover!(ok && n > 70000, "cover: a payload longer than 70000 bytes is accepted");
}
#[cfg(kani)]
#[kani::proof]
#[kani::stub(std::fmt::format, fmt_stub)]
#[kani::unwind(6)]
pub fn k2_parse_other_0e() {
    let (ok, n) = k2_parse(Some(0x0e));
    vk_cover!(ok && n > 70000, "cover: a payload longer than 70000 bytes is accepted");
}
#[cfg(kani)]
#[kani::proof]
#[kani::stub(std::fmt::format, fmt_stub)]
#[kani::unwind(6)]
pub fn k2_parse_other_rest() {
    let (ok, n) = k2_parse(None);
    vk_cover!(!ok && n > 70000, "cover: a long payload with an unknown command byte is rejected");
}

/// One harness per command byte of the table (the first byte is concrete, so that nom's `alt` over
/// `tag`s is decided during symbolic execution), and one for every OTHER first byte and the empty
/// payload: together every payload. (Three harnesses over classes of bytes took 260-415 s each.)
#[cfg(kani)]
fn k2_parse(first: Option<u8>) -> (bool, usize) {
    let n: usize = vk::any();
    vk::assume(n <= (1usize << 40));
    let mut v = lazy_bytes(n);
    if n == 0 {
        vk::assume(first.is_none());
        vk_assert!(parse(&v[..]).is_err(), "[C02.parse.reject] empty payload accepted");
        return (false, 0);
    }
    match first {
        Some(b) => v[0] = b,
        None => vk::assume(!matches!(v[0], 0x03 | 0x04 | 0x02 | 0x16 | 0x17 | 0x18 | 0x19 | 0x01 | 0x0e)),
    }
    let p = &v[..];
    let r = noerr(parse(p));
    let ok_ = r.is_ok();
    let tail_ptr = unsafe { p.as_ptr().add(1) };
    let text = |q: &[u8]| q.as_ptr() == tail_ptr && q.len() == n - 1;
    match p[0] {
        0x03 => {
            vk_assert!(matches!(r, Ok((_, Command::Query(q))) if text(q)), "[C02.parse.table] COM_QUERY must carry p[1..] verbatim");
        }
        0x04 => vk_assert!(matches!(r, Ok((_, Command::ListFields(q))) if text(q)), "[C02.parse.table] COM_FIELD_LIST must carry p[1..]"),
        0x02 => vk_assert!(matches!(r, Ok((_, Command::Init(q))) if text(q)), "[C02.parse.table] COM_INIT_DB must carry p[1..] verbatim"),
        0x16 => vk_assert!(matches!(r, Ok((_, Command::Prepare(q))) if text(q)), "[C02.parse.table] COM_STMT_PREPARE must carry p[1..] verbatim"),
        0x17 => {
            if n >= 10 {
                let want = u32::from_le_bytes([p[1], p[2], p[3], p[4]]);
                match r {
                    Ok((_, Command::Execute { stmt, params })) => {
                        vk_assert!(stmt == want, "[C08.execute] statement id is not le32(p[1..5])");
                        vk_assert!(params.as_ptr() == unsafe { p.as_ptr().add(10) } && params.len() == n - 10, "[C08.execute] params must be p[10..]");
                    }
                    _ => vk_assert!(false, "[C08.execute] well-formed COM_STMT_EXECUTE not parsed as Execute"),
                }
            } else {
                vk_assert!(r.is_err(), "[C02.parse.reject] truncated COM_STMT_EXECUTE accepted");
            }
        }
        0x18 => {
            if n >= 7 {
                let want = u32::from_le_bytes([p[1], p[2], p[3], p[4]]);
                let wantp = u16::from_le_bytes([p[5], p[6]]);
                match r {
                    Ok((_, Command::SendLongData { stmt, param, data })) => {
                        vk_assert!(stmt == want && param == wantp, "[C17.longdata] statement id / parameter index read from the wrong offset");
                        vk_assert!(data.as_ptr() == unsafe { p.as_ptr().add(7) } && data.len() == n - 7, "[C17.longdata] data must be p[7..]");
                    }
                    _ => vk_assert!(false, "[C17.longdata] well-formed COM_STMT_SEND_LONG_DATA not parsed"),
                }
            } else {
                vk_assert!(r.is_err(), "[C02.parse.reject] truncated COM_STMT_SEND_LONG_DATA accepted");
            }
        }
        0x19 => {
            if n >= 5 {
                let want = u32::from_le_bytes([p[1], p[2], p[3], p[4]]);
                vk_assert!(matches!(r, Ok((_, Command::Close(s))) if s == want), "[C02.parse.table] COM_STMT_CLOSE id is not le32(p[1..5])");
            } else {
                vk_assert!(r.is_err(), "[C02.parse.reject] truncated COM_STMT_CLOSE accepted");
            }
        }
        0x01 => vk_assert!(matches!(r, Ok((_, Command::Quit))), "[C02.parse.table] COM_QUIT"),
        0x0e => vk_assert!(matches!(r, Ok((_, Command::Ping))), "[C02.parse.table] COM_PING"),
        _ => {
            vk_assert!(r.is_err(), "[C02.parse.reject] unknown command byte accepted");
        }
    }
    (ok_, n)
}

#[cfg(kani)]
#[kani::proof]
#[kani::stub(std::fmt::format, fmt_stub)]
#[kani::unwind(6)]
pub fn k2_handshake_fixed() {
    // everything except the user-name scan: the SSL-request path of the 4.1 layout, and shortness
    let n: usize = vk::any();
    vk::assume(n <= (1usize << 40));
    let v = lazy_bytes(n);
    let p = &v[..];
    vk::assume(n < 2 || (p[1] & 0x02) != 0); // CLIENT_PROTOCOL_41 (0x0200)
    vk::assume(n < 2 || (p[1] & 0x08) != 0); // CLIENT_SSL (0x0800): SSL request, no user name yet
    let r = noerr(client_handshake(p, false));
    if n >= 32 {
        vk_cover!(n == 32, "cover: bare SSL request packet");
        match r {
            Ok((rest, h)) => {
                let cap = u32::from_le_bytes([p[0], p[1], p[2], p[3]]);
                vk_assert!(h.capabilities == CapabilityFlags::from_bits_truncate(cap), "[C11.handshake.fixed] capability mask differs");
                vk_assert!(h.capabilities.contains(CapabilityFlags::CLIENT_SSL), "[C11.handshake.fixed] SSL bit lost");
                vk_assert!(h.username.is_none(), "[C11.handshake.fixed] SSL request must not carry a user name");
                vk_assert!(rest.as_ptr() == unsafe { p.as_ptr().add(32) } && rest.len() == n - 32, "[C11.handshake.fixed] fixed part is 32 bytes");
            }
            Err(_) => vk_assert!(false, "[C11.handshake.fixed] complete SSL request rejected"),
        }
    } else {
        vk_cover!(n == 31, "cover: one byte short");
        vk_assert!(r.is_err(), "[C11.handshake.fixed] truncated handshake accepted");
    }
}

/// memchr's specification: index of the first occurrence
pub fn find_first(hay: &[u8], needle: u8) -> Option<usize> {
    let mut i = 0;
    while i < hay.len() {
        if hay[i] == needle {
            return Some(i);
        }
        i += 1;
    }
    None
}
pub fn find_substring_spec<'a: 'a, 'b: 'b>(hay: &&'a [u8], needle: &'b [u8]) -> Option<usize> {
    // only single-byte needles are used by the functions under contract
    if needle.len() != 1 {
        return None;
    }
    find_first(hay, needle[0])
}

#[cfg(kani)]
#[kani::proof]
#[kani::stub(std::fmt::format, fmt_stub)]
#[kani::stub(<&[u8] as nom::FindSubstring<&[u8]>>::find_substring, find_substring_spec)]
#[kani::unwind(15)]
pub fn k2_handshake_user() {
    const N: usize = 44;
    const SCAN: usize = 12;
    let b: [u8; N] = vk::any();
    let n: usize = vk::any();
    vk::assume(n <= N);
    let after_tls: bool = vk::any();
    let p = &b[..n];
    let proto41 = n >= 2 && (p[1] & 0x02) != 0;
    vk::assume(proto41 || n <= 5 + SCAN);
    // the user name is scanned unless this is the plaintext SSL request
    vk::assume(!(proto41 && !after_tls && (p[1] & 0x08) != 0));
    let off = if proto41 { 32 } else { 5 };
    let r = noerr(client_handshake(p, after_tls));
    if n < off {
        vk_assert!(r.is_err(), "[C11.handshake.fixed] truncated handshake accepted");
        return;
    }
    let nul = find_first(&b[off..n], 0);
    match (r, nul) {
        (Ok((_, h)), Some(k)) => {
            vk_cover!(k == 0, "cover: empty user name");
            vk_cover!(k == 11, "cover: 11-byte user name");
            vk_cover!(!proto41, "cover: 3.20 layout");
            let u = match h.username {
                Some(u) => u,
                None => {
                    vk_assert!(false, "[C11.handshake.user] user name missing");
                    return;
                }
            };
            vk_assert!(u.as_ptr() == unsafe { p.as_ptr().add(off) } && u.len() == k, "[C11.handshake.user] user name is not the bytes up to the first NUL");
            if proto41 {
                let cap = u32::from_le_bytes([p[0], p[1], p[2], p[3]]);
                vk_assert!(h.capabilities == CapabilityFlags::from_bits_truncate(cap), "[C11.handshake.fixed] capability mask differs (4.1)");
            } else {
                let cap = u16::from_le_bytes([p[0], p[1]]) as u32;
                vk_assert!(h.capabilities == CapabilityFlags::from_bits_truncate(cap), "[C11.handshake.fixed] capability mask differs (3.20)");
            }
        }
        (Ok(_), None) => vk_assert!(false, "[C11.handshake.user] accepted although the user name is not NUL-terminated"),
        (Err(_), Some(_)) => vk_assert!(false, "[C11.handshake.user] well-formed handshake response rejected"),
        (Err(_), None) => {
            vk_cover!(true, "cover: unterminated user name rejected");
        }
    }
}


// ---- the user-name scan for payloads of ANY length (complete; no loop anywhere).
// nom's take_until ends in memchr. Its specification -- "Some(k): hay[k] == c and no c before k; None: no c at
// all" -- quantifies over positions. Here the quantifier is instantiated at ONE arbitrary index J, chosen
// nondeterministically before the call and never constrained: the stub assumes the specification at J only
// (which the real memchr satisfies for every J), and the harness asserts its claims at the same J. Since J is
// arbitrary, the claims hold at every index (forall-introduction), for inputs of symbolic length up to 2^40.
static mut K2_J: usize = 0;
pub fn find_substring_at_j<'a: 'a, 'b: 'b>(hay: &&'a [u8], needle: &'b [u8]) -> Option<usize> {
    if needle.len() != 1 {
        return None;
    }
    let c = needle[0];
    let j = unsafe { K2_J };
    let found: bool = vk::any();
    if found {
        let k: usize = vk::any();
        vk::assume(k < hay.len());
        vk::assume(hay[k] == c);
        vk::assume(!(j < k) || hay[j] != c);
        Some(k)
    } else {
        vk::assume(!(j < hay.len()) || hay[j] != c);
        None
    }
}

#[cfg(kani)]
#[kani::proof]
#[kani::stub(std::fmt::format, fmt_stub)]
#[kani::stub(<&[u8] as nom::FindSubstring<&[u8]>>::find_substring, find_substring_at_j)]
#[kani::unwind(6)]
pub fn k2_handshake_user_any() {
    let n: usize = vk::any();
    vk::assume(n <= (1usize << 40));
    let v = lazy_bytes(n);
    let p = &v[..];
    let after_tls: bool = vk::any();
    let proto41 = n >= 2 && (p[1] & 0x02) != 0;
    // the user name is scanned unless this is the plaintext SSL request
    vk::assume(!(proto41 && !after_tls && (p[1] & 0x08) != 0));
    let off = if proto41 { 32 } else { 5 };
    let j: usize = vk::any();
    unsafe { K2_J = j; }
    let r = noerr(client_handshake(p, after_tls));
    if n < off {
        vk_assert!(r.is_err(), "[C11.handshake.fixed] truncated handshake accepted");
        return;
    }
    match r {
        Ok((rest, h)) => {
            let u = match h.username {
                Some(u) => u,
                None => {
                    vk_assert!(false, "[C11.handshake.user] user name missing");
                    return;
                }
            };
            let k = u.len();
            vk_cover!(k == 0, "cover: empty user name");
            vk_cover!(k > 70000, "cover: a user name longer than 70000 bytes");
            vk_cover!(!proto41, "cover: 3.20 layout");
            vk_assert!(u.as_ptr() == unsafe { p.as_ptr().add(off) }, "[C11.handshake.user] user name does not start right after the fixed part");
            vk_assert!(off + k < n && p[off + k] == 0, "[C11.handshake.user] user name is not terminated by a NUL of the payload");
            vk_assert!(!(j < k) || p[off + j] != 0, "[C11.handshake.user] user name extends beyond the FIRST NUL");
            if proto41 {
                vk_assert!(rest.as_ptr() == unsafe { p.as_ptr().add(off + k + 1) } && rest.len() == n - off - k - 1, "[C11.handshake.user] remainder does not start after the NUL (4.1)");
                let cap = u32::from_le_bytes([p[0], p[1], p[2], p[3]]);
                vk_assert!(h.capabilities == CapabilityFlags::from_bits_truncate(cap), "[C11.handshake.fixed] capability mask differs (4.1)");
            } else {
                let cap = u16::from_le_bytes([p[0], p[1]]) as u32;
                vk_assert!(h.capabilities == CapabilityFlags::from_bits_truncate(cap), "[C11.handshake.fixed] capability mask differs (3.20)");
            }
        }
        Err(_) => {
            vk_cover!(n > off + 70000, "cover: a long unterminated user name is rejected");
            vk_assert!(!(j < n - off) || p[off + j] != 0, "[C11.handshake.user] well-formed handshake response rejected (the payload has a NUL after the fixed part)");
        }
    }
}
