// K3 (decode): contracts on `ValueInner::parse_from` (every column-type code, both signedness
// flags) and on the `From<Value>` conversions of src/value/decode.rs. Loop-free over full-domain
// symbolic inputs: complete proofs.
//
//@ group k3_decode
//@ inject src/value/decode.rs
//@ default-clause C20.decode.nopanic
//@ harness k3_parse_fixed     tier=quick kind=complete fn=src/value/decode.rs::ValueInner::parse_from(fixed-width,NULL,unsupported)
//@ harness k3_parse_bytes     tier=quick kind=complete fn=src/value/decode.rs::ValueInner::parse_from(length-encoded-strings)
//@ harness k3_parse_temporal  tier=quick kind=complete fn=src/value/decode.rs::ValueInner::parse_from(DATE,TIME,DATETIME,TIMESTAMP)
//@ harness k3_into_ints       tier=quick kind=complete fn=src/value/decode.rs::<u8..i64,f32,f64,&[u8]>::from(Value)
//@ harness k3_into_date       tier=quick kind=complete fn=src/value/decode.rs::<NaiveDate>::from(Value)
//@ harness k3_into_datetime   tier=quick kind=complete fn=src/value/decode.rs::<NaiveDateTime>::from(Value)
//@ harness k3_into_duration   tier=quick kind=complete fn=src/value/decode.rs::<Duration>::from(Value)
//@ clause C08.parse.fixed    fixed-width types: value sign-/zero-extended from exactly width bytes, exactly width bytes consumed; short input => Err
//@ clause C08.parse.bytes    string-like types: exactly the length-prefixed slice (by pointer), prefix+length consumed; short input => Err
//@ clause C08.parse.temporal DATE/TIME/DATETIME/TIMESTAMP: one length byte, then exactly that many bytes delivered raw
//@ clause C08.parse.null     MYSQL_TYPE_NULL consumes nothing and yields NULL; unsupported type codes => Err
//@ clause C08.into.int       integer/float/bytes conversions yield the value the client encoded
//@ clause C08.into.date      NaiveDate from the 4-byte form
//@ clause C08.into.datetime  NaiveDateTime from the 4-, 7- and 11-byte forms, including microseconds
//@ clause C08.into.duration  Duration from the 0-, 8- and 12-byte forms, including microseconds
//@ clause C20.decode.nopanic parse_from never panics on any input; conversions of well-formed values never panic
#![allow(unused_imports)]
use crate::value::{Value, ValueInner};
use crate::verif_kani_common::*;
use crate::ColumnType;
use chrono::{Datelike, NaiveDate, NaiveDateTime, Timelike};
use std::time::Duration;

pub fn stringlike(ct: ColumnType) -> bool {
    matches!(
        ct,
        ColumnType::MYSQL_TYPE_STRING
            | ColumnType::MYSQL_TYPE_VAR_STRING
            | ColumnType::MYSQL_TYPE_BLOB
            | ColumnType::MYSQL_TYPE_TINY_BLOB
            | ColumnType::MYSQL_TYPE_MEDIUM_BLOB
            | ColumnType::MYSQL_TYPE_LONG_BLOB
            | ColumnType::MYSQL_TYPE_SET
            | ColumnType::MYSQL_TYPE_ENUM
            | ColumnType::MYSQL_TYPE_DECIMAL
            | ColumnType::MYSQL_TYPE_VARCHAR
            | ColumnType::MYSQL_TYPE_BIT
            | ColumnType::MYSQL_TYPE_NEWDECIMAL
            | ColumnType::MYSQL_TYPE_GEOMETRY
            | ColumnType::MYSQL_TYPE_JSON
    )
}
pub fn temporal(ct: ColumnType) -> bool {
    matches!(
        ct,
        ColumnType::MYSQL_TYPE_DATE | ColumnType::MYSQL_TYPE_TIME | ColumnType::MYSQL_TYPE_DATETIME | ColumnType::MYSQL_TYPE_TIMESTAMP
    )
}
pub fn fixed_width(ct: ColumnType) -> Option<usize> {
    match ct {
        ColumnType::MYSQL_TYPE_TINY => Some(1),
        ColumnType::MYSQL_TYPE_SHORT | ColumnType::MYSQL_TYPE_YEAR => Some(2),
        ColumnType::MYSQL_TYPE_LONG | ColumnType::MYSQL_TYPE_INT24 | ColumnType::MYSQL_TYPE_FLOAT => Some(4),
        ColumnType::MYSQL_TYPE_LONGLONG | ColumnType::MYSQL_TYPE_DOUBLE => Some(8),
        _ => None,
    }
}

#[cfg_attr(kani, kani::proof)]
#[cfg_attr(kani, kani::stub(std::fmt::format, fmt_stub))]
#[cfg_attr(kani, kani::stub(std::io::_print, print_stub))]
#[cfg_attr(kani, kani::unwind(10))]
pub fn k3_parse_fixed() {
    let b: [u8; 10] = vk::any();
    let n: usize = vk::any();
    vk::assume(n <= 10);
    let code: u8 = vk::any();
    let unsigned: bool = vk::any();
    let ct = match ColumnType::try_from(code) {
        Ok(c) => c,
        Err(_) => return,
    };
    vk::assume(!stringlike(ct) && !temporal(ct));
    let mut inp = &b[..n];
    let r = noerr(ValueInner::parse_from(&mut inp, ct, unsigned));
    if let Some(w) = fixed_width(ct) {
        if n < w {
            vk_cover!(w == 8, "cover: short input for an 8-byte type");
            vk_assert!(r.is_err(), "[C08.parse.fixed] short input accepted");
            return;
        }
        vk_assert!(r.is_ok(), "[C08.parse.fixed] complete fixed-width value rejected");
        vk_assert!(inp.len() == n - w && inp.as_ptr() == unsafe { b.as_ptr().add(w) }, "[C08.parse.fixed] consumed a different number of bytes than the type's width");
        let mut raw = [0u8; 8];
        let mut i = 0;
        while i < w {
            raw[i] = b[i];
            i += 1;
        }
        let u = u64::from_le_bytes(raw);
        match (ct, r.unwrap()) {
            (ColumnType::MYSQL_TYPE_FLOAT, ValueInner::Double(d)) => {
                let f = f32::from_bits(u as u32);
                vk_assert!(d == f as f64 || (d.is_nan() && f.is_nan()), "[C08.parse.fixed] FLOAT decoded to a different number");
            }
            (ColumnType::MYSQL_TYPE_DOUBLE, ValueInner::Double(d)) => {
                vk_assert!(d.to_bits() == u || (d.is_nan() && f64::from_bits(u).is_nan()), "[C08.parse.fixed] DOUBLE bits altered");
            }
            (ColumnType::MYSQL_TYPE_FLOAT, _) | (ColumnType::MYSQL_TYPE_DOUBLE, _) => {
                vk_assert!(false, "[C08.parse.fixed] float type decoded to a non-float value");
            }
            (_, ValueInner::UInt(x)) => {
                vk_cover!(w == 4, "cover: unsigned 4-byte integer");
                vk_assert!(unsigned, "[C08.parse.fixed] signed parameter decoded as unsigned");
                vk_assert!(x == u, "[C08.parse.fixed] unsigned integer not zero-extended from its bytes");
            }
            (_, ValueInner::Int(x)) => {
                vk_assert!(!unsigned, "[C08.parse.fixed] unsigned parameter decoded as signed");
                let want = match w {
                    1 => (u as u8 as i8) as i64,
                    2 => (u as u16 as i16) as i64,
                    4 => (u as u32 as i32) as i64,
                    _ => u as i64,
                };
                vk_cover!(want < 0, "cover: negative integer");
                vk_assert!(x == want, "[C08.parse.fixed] signed integer not sign-extended from its bytes");
            }
            _ => vk_assert!(false, "[C08.parse.fixed] integer type decoded to a non-integer value"),
        }
    } else if ct == ColumnType::MYSQL_TYPE_NULL {
        vk_assert!(matches!(r, Ok(ValueInner::NULL)) && inp.len() == n, "[C08.parse.null] NULL type must consume nothing");
    } else {
        vk_cover!(true, "cover: unsupported type code");
        vk_assert!(r.is_err(), "[C08.parse.null] unsupported parameter type accepted");
    }
}

#[cfg(kani)]
#[kani::proof]
#[kani::stub(std::fmt::format, fmt_stub)]
#[kani::unwind(10)]
pub fn k3_parse_bytes() {
    let n: usize = vk::any();
    vk::assume(n <= (1usize << 40));
    let v = lazy_bytes(n);
    let code: u8 = vk::any();
    let unsigned: bool = vk::any();
    let ct = match ColumnType::try_from(code) {
        Ok(c) => c,
        Err(_) => return,
    };
    vk::assume(stringlike(ct));
    let mut inp = &v[..];
    let r = noerr(ValueInner::parse_from(&mut inp, ct, unsigned));
    // the client's length prefix, decoded per protocol
    let (hl, len): (usize, Option<u64>) = if n == 0 {
        (0, None)
    } else if v[0] < 0xfb {
        (1, Some(v[0] as u64))
    } else if v[0] == 0xfc {
        (3, if n >= 3 { Some(u16::from_le_bytes([v[1], v[2]]) as u64) } else { None })
    } else if v[0] == 0xfd {
        (4, if n >= 4 { Some(v[1] as u64 | (v[2] as u64) << 8 | (v[3] as u64) << 16) } else { None })
    } else if v[0] == 0xfe {
        (9, if n >= 9 { Some(u64::from_le_bytes([v[1], v[2], v[3], v[4], v[5], v[6], v[7], v[8]])) } else { None })
    } else {
        // 0xfb (NULL marker) / 0xff are not valid length prefixes of a value; whatever the library
        // answers, it must not panic -- no functional claim
        return;
    };
    match len {
        Some(l) if (l as u128) + (hl as u128) <= n as u128 => {
            vk_cover!(l > 70000, "cover: value longer than 70000 bytes");
            vk_cover!(l == 0, "cover: empty value");
            match r {
                Ok(ValueInner::Bytes(s)) => {
                    vk_assert!(s.len() as u64 == l && s.as_ptr() == unsafe { v.as_ptr().add(hl) }, "[C08.parse.bytes] not exactly the length-prefixed slice");
                    vk_assert!(inp.len() == n - hl - l as usize, "[C08.parse.bytes] consumed a different number of bytes");
                }
                _ => vk_assert!(false, "[C08.parse.bytes] complete length-encoded value rejected or mis-typed"),
            }
        }
        _ => {
            vk_cover!(true, "cover: truncated value");
            vk_assert!(r.is_err(), "[C08.parse.bytes] truncated length-encoded value accepted");
        }
    }
}

#[cfg_attr(kani, kani::proof)]
#[cfg_attr(kani, kani::stub(std::fmt::format, fmt_stub))]
#[cfg_attr(kani, kani::unwind(10))]
pub fn k3_parse_temporal() {
    let b: [u8; 14] = vk::any();
    let n: usize = vk::any();
    vk::assume(n <= 14);
    let code: u8 = vk::any();
    let unsigned: bool = vk::any();
    let ct = match ColumnType::try_from(code) {
        Ok(c) => c,
        Err(_) => return,
    };
    vk::assume(temporal(ct));
    let mut inp = &b[..n];
    let r = noerr(ValueInner::parse_from(&mut inp, ct, unsigned));
    if n >= 1 && 1 + b[0] as usize <= n {
        let l = b[0] as usize;
        vk_cover!(l == 11, "cover: 11-byte datetime");
        vk_cover!(l == 0, "cover: zero-length temporal value");
        let s = match (ct, r) {
            (ColumnType::MYSQL_TYPE_DATE, Ok(ValueInner::Date(s))) => s,
            (ColumnType::MYSQL_TYPE_TIME, Ok(ValueInner::Time(s))) => s,
            (ColumnType::MYSQL_TYPE_DATETIME, Ok(ValueInner::Datetime(s))) => s,
            (ColumnType::MYSQL_TYPE_TIMESTAMP, Ok(ValueInner::Datetime(s))) => s,
            _ => {
                vk_assert!(false, "[C08.parse.temporal] complete temporal value rejected or mis-typed");
                return;
            }
        };
        vk_assert!(s.len() == l && s.as_ptr() == unsafe { b.as_ptr().add(1) }, "[C08.parse.temporal] not exactly the length-prefixed bytes");
        vk_assert!(inp.len() == n - 1 - l, "[C08.parse.temporal] consumed a different number of bytes");
    } else {
        vk_assert!(r.is_err(), "[C08.parse.temporal] truncated temporal value accepted");
    }
}

macro_rules! into_int {
    ($t:ty, $w:expr, $ct:expr, $unsigned:expr, $b:expr) => {{
        let mut inp = &$b[..];
        let v = Value::parse_from(&mut inp, $ct, $unsigned).unwrap();
        let mut raw = [0u8; std::mem::size_of::<$t>()];
        let mut i = 0;
        while i < $w {
            raw[i] = $b[i];
            i += 1;
        }
        let got: $t = v.into();
        vk_assert!(got == <$t>::from_le_bytes(raw), "[C08.into.int] converted integer differs from the value the client encoded");
    }};
}

#[cfg_attr(kani, kani::proof)]
#[cfg_attr(kani, kani::stub(std::fmt::format, fmt_stub))]
#[cfg_attr(kani, kani::unwind(10))]
pub fn k3_into_ints() {
    let b: [u8; 8] = vk::any();
    let which: u8 = vk::any();
    match which {
        0 => into_int!(u8, 1, ColumnType::MYSQL_TYPE_TINY, true, b),
        1 => into_int!(i8, 1, ColumnType::MYSQL_TYPE_TINY, false, b),
        2 => into_int!(u16, 2, ColumnType::MYSQL_TYPE_SHORT, true, b),
        3 => into_int!(i16, 2, ColumnType::MYSQL_TYPE_SHORT, false, b),
        4 => into_int!(u32, 4, ColumnType::MYSQL_TYPE_LONG, true, b),
        5 => into_int!(i32, 4, ColumnType::MYSQL_TYPE_LONG, false, b),
        6 => into_int!(u64, 8, ColumnType::MYSQL_TYPE_LONGLONG, true, b),
        7 => into_int!(i64, 8, ColumnType::MYSQL_TYPE_LONGLONG, false, b),
        8 => {
            let mut inp = &b[..];
            let v = Value::parse_from(&mut inp, ColumnType::MYSQL_TYPE_DOUBLE, false).unwrap();
            let got: f64 = v.into();
            let want = f64::from_le_bytes(b);
            vk_assert!(got == want || (got.is_nan() && want.is_nan()), "[C08.into.int] converted double differs");
        }
        9 => {
            let mut inp = &b[..];
            let v = Value::parse_from(&mut inp, ColumnType::MYSQL_TYPE_FLOAT, false).unwrap();
            let got: f32 = v.into();
            let want = f32::from_le_bytes([b[0], b[1], b[2], b[3]]);
            vk_assert!(got == want || (got.is_nan() && want.is_nan()), "[C08.into.int] converted float differs");
        }
        _ => {
            vk::assume(b[0] <= 7);
            let mut inp = &b[..];
            let v = Value::parse_from(&mut inp, ColumnType::MYSQL_TYPE_BLOB, false).unwrap();
            let got: &[u8] = v.into();
            vk_assert!(got.len() == b[0] as usize && got.as_ptr() == unsafe { b.as_ptr().add(1) }, "[C08.into.int] converted bytes differ");
        }
    }
}

#[cfg_attr(kani, kani::proof)]
#[cfg_attr(kani, kani::stub(std::fmt::format, fmt_stub))]
#[cfg_attr(kani, kani::unwind(10))]
pub fn k3_into_date() {
    let raw: [u8; 5] = vk::any();
    vk::assume(raw[0] == 4);
    let y = u16::from_le_bytes([raw[1], raw[2]]);
    vk::assume(y <= 9999 && raw[3] >= 1 && raw[3] <= 12 && raw[4] >= 1 && raw[4] <= 31);
    // the client encoded a real calendar date
    vk::assume(NaiveDate::from_ymd_opt(y as i32, raw[3] as u32, raw[4] as u32).is_some());
    let mut inp = &raw[..];
    let v = Value::parse_from(&mut inp, ColumnType::MYSQL_TYPE_DATE, false).unwrap();
    let d: NaiveDate = v.into();
    vk_cover!(raw[3] == 2 && raw[4] == 29, "cover: 29 February");
    vk_assert!(d.year() == y as i32 && d.month() == raw[3] as u32 && d.day() == raw[4] as u32, "[C08.into.date] converted date differs");
}

#[cfg_attr(kani, kani::proof)]
#[cfg_attr(kani, kani::stub(std::fmt::format, fmt_stub))]
#[cfg_attr(kani, kani::unwind(10))]
pub fn k3_into_datetime() {
    let raw: [u8; 12] = vk::any();
    vk::assume(raw[0] == 4 || raw[0] == 7 || raw[0] == 11);
    let l = raw[0] as usize;
    let y = u16::from_le_bytes([raw[1], raw[2]]);
    vk::assume(y <= 9999 && raw[3] >= 1 && raw[3] <= 12 && raw[4] >= 1 && raw[4] <= 31);
    vk::assume(NaiveDate::from_ymd_opt(y as i32, raw[3] as u32, raw[4] as u32).is_some());
    let (h, mi, s) = if l >= 7 { (raw[5], raw[6], raw[7]) } else { (0, 0, 0) };
    vk::assume(h < 24 && mi < 60 && s < 60);
    let us = if l == 11 { u32::from_le_bytes([raw[8], raw[9], raw[10], raw[11]]) } else { 0 };
    vk::assume(us < 1_000_000);
    let mut inp = &raw[..1 + l];
    let v = Value::parse_from(&mut inp, ColumnType::MYSQL_TYPE_DATETIME, false).unwrap();
    let d: NaiveDateTime = v.into();
    vk_cover!(l == 4, "cover: date-only datetime (4-byte form)");
    vk_cover!(l == 11 && us != 0, "cover: datetime with microseconds");
    vk_assert!(d.year() == y as i32 && d.month() == raw[3] as u32 && d.day() == raw[4] as u32, "[C08.into.datetime] date part differs");
    vk_assert!(d.hour() == h as u32 && d.minute() == mi as u32 && d.second() == s as u32, "[C08.into.datetime] time part differs");
    vk_assert!(d.nanosecond() == us * 1000, "[C08.into.datetime] microseconds differ");
}

#[cfg_attr(kani, kani::proof)]
#[cfg_attr(kani, kani::stub(std::fmt::format, fmt_stub))]
#[cfg_attr(kani, kani::unwind(10))]
pub fn k3_into_duration() {
    let raw: [u8; 13] = vk::any();
    vk::assume(raw[0] == 0 || raw[0] == 8 || raw[0] == 12);
    let l = raw[0] as usize;
    vk::assume(l == 0 || raw[1] == 0); // positive times (the type is std::time::Duration)
    let days = if l >= 8 { u32::from_le_bytes([raw[2], raw[3], raw[4], raw[5]]) } else { 0 };
    let (h, mi, s) = if l >= 8 { (raw[6], raw[7], raw[8]) } else { (0, 0, 0) };
    vk::assume(h < 24 && mi < 60 && s < 60);
    let us = if l == 12 { u32::from_le_bytes([raw[9], raw[10], raw[11], raw[12]]) } else { 0 };
    vk::assume(us < 1_000_000);
    let mut inp = &raw[..1 + l];
    let v = Value::parse_from(&mut inp, ColumnType::MYSQL_TYPE_TIME, false).unwrap();
    let d: Duration = v.into();
    vk_cover!(l == 12 && us != 0, "cover: time with microseconds");
    vk_cover!(l == 0, "cover: zero-length time");
    vk_assert!(d.as_secs() == days as u64 * 86400 + h as u64 * 3600 + mi as u64 * 60 + s as u64, "[C08.into.duration] seconds differ");
    vk_assert!(d.subsec_micros() == us && d.subsec_nanos() == us * 1000, "[C08.into.duration] microseconds differ");
}
