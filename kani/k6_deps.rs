// K6 (deps): the dependency contracts the Verus units ASSUME are CHECKED here on the real crates:
// mysql_common's length-encoded integers/strings and byteorder's little-endian writers.
//
//@ group k6_deps
//@ inject src/writers.rs
//@ default-clause C14.deps.nopanic
//@ harness k6_write_lenenc_int tier=quick kind=complete fn=mysql_common::io::WriteMysqlExt::write_lenenc_int
//@ harness k6_read_lenenc_int  tier=quick kind=complete fn=mysql_common::io::ReadMysqlExt::read_lenenc_int
//@ harness k6_write_lenenc_str tier=quick kind=complete fn=mysql_common::io::WriteMysqlExt::write_lenenc_str
//@ harness k6_byteorder_le     tier=quick kind=complete fn=byteorder::{LittleEndian::write_u24,WriteBytesExt::write_u16/u32/u64}
//@ clause C14.lenenc.write  write_lenenc_int(x) writes exactly lenenc_int(x): 1 byte (<251), FC+2 (<2^16), FD+3 (<2^24), FE+8; for every u64
//@ clause C14.lenenc.read   read_lenenc_int inverts lenenc_int for every u64 and consumes exactly its bytes
//@ clause C06.lenenc.str    write_lenenc_str(b) writes lenenc_int(|b|) followed by exactly the bytes of b, for every length
//@ clause C04.le            byteorder little-endian writers produce the little-endian bytes (all values)
//@ clause C14.deps.nopanic  none of these dependency functions panics
#![allow(unused_imports)]
use crate::myc::io::{ReadMysqlExt, WriteMysqlExt};
use crate::verif_kani_common::*;
use byteorder::{ByteOrder, LittleEndian, WriteBytesExt};
use std::io::{self, Write};

#[cfg_attr(kani, kani::proof)]
#[cfg_attr(kani, kani::unwind(10))]
pub fn k6_write_lenenc_int() {
    let x: u64 = vk::any();
    let mut b = Buf::<16>::new();
    let r = noerr(b.write_lenenc_int(x));
    let mut spec = [0u8; 9];
    let n = spec_lenenc(x, &mut spec);
    vk_cover!(n == 3, "cover: 0xFC form");
    vk_cover!(n == 9, "cover: 0xFE form");
    vk_assert!(r.is_ok(), "[C14.lenenc.write] write_lenenc_int failed on a sink with room");
    vk_assert!(b.n == n, "[C14.lenenc.write] wrong number of bytes for this size class");
    let k: usize = vk::any();
    vk::assume(k < n);
    vk_assert!(b.b[k] == spec[k], "[C14.lenenc.write] byte differs from the protocol's length-encoded integer");
}

#[cfg_attr(kani, kani::proof)]
#[cfg_attr(kani, kani::unwind(10))]
pub fn k6_read_lenenc_int() {
    let x: u64 = vk::any();
    let extra: [u8; 3] = vk::any();
    let mut buf = [0u8; 12];
    let mut spec = [0u8; 9];
    let n = spec_lenenc(x, &mut spec);
    let mut k = 0;
    while k < 9 {
        buf[k] = spec[k];
        k += 1;
    }
    // arbitrary bytes follow the integer
    buf[n] = extra[0];
    buf[n + 1] = extra[1];
    buf[n + 2] = extra[2];
    let mut inp = &buf[..];
    let r = noerr(inp.read_lenenc_int());
    vk_cover!(n == 4, "cover: 0xFD form read");
    match r {
        Ok(v) => {
            vk_assert!(v == x, "[C14.lenenc.read] decoded value differs");
            vk_assert!(inp.len() == 12 - n, "[C14.lenenc.read] consumed a different number of bytes");
        }
        Err(_) => vk_assert!(false, "[C14.lenenc.read] failed on a well-formed length-encoded integer"),
    }
}

#[cfg(kani)]
#[kani::proof]
#[kani::unwind(11)]
pub fn k6_write_lenenc_str() {
    let n: usize = vk::any();
    vk::assume(n <= (1usize << 40));
    let data = lazy_bytes(n);
    let mut s = RecSink::new(data.as_ptr());
    let r = noerr(s.write_lenenc_str(&data[..]));
    vk_assert!(r.is_ok(), "[C06.lenenc.str] write_lenenc_str failed on a sink that accepts everything");
    vk_cover!(n > 65535, "cover: string longer than 65535 bytes");
    vk_cover!(n == 0, "cover: empty string");
    let k1: usize = vk::any();
    vk_assert!(is_lenenc_str(&s, n, k1), "[C06.lenenc.str] output is not lenenc_int(len) followed by exactly the given bytes");
}

#[cfg_attr(kani, kani::proof)]
#[cfg_attr(kani, kani::unwind(10))]
pub fn k6_byteorder_le() {
    let a: u16 = vk::any();
    let b: u32 = vk::any();
    let c: u64 = vk::any();
    let d: u32 = vk::any();
    vk::assume(d < (1 << 24));
    let mut s = Buf::<16>::new();
    s.write_u16::<LittleEndian>(a).unwrap();
    s.write_u32::<LittleEndian>(b).unwrap();
    s.write_u64::<LittleEndian>(c).unwrap();
    vk_assert!(s.n == 14, "[C04.le] wrong widths");
    vk_assert!(s.b[0] == (a & 0xff) as u8 && s.b[1] == (a >> 8) as u8, "[C04.le] write_u16 is not little-endian");
    vk_assert!(u32::from_le_bytes([s.b[2], s.b[3], s.b[4], s.b[5]]) == b, "[C04.le] write_u32 is not little-endian");
    vk_assert!(u64::from_le_bytes([s.b[6], s.b[7], s.b[8], s.b[9], s.b[10], s.b[11], s.b[12], s.b[13]]) == c, "[C04.le] write_u64 is not little-endian");
    let mut h = [0u8; 3];
    LittleEndian::write_u24(&mut h, d);
    vk_assert!(h[0] as u32 + 256 * h[1] as u32 + 65536 * h[2] as u32 == d, "[C04.le] write_u24 is not little-endian");
    let mut t = Buf::<4>::new();
    t.write_u8(a as u8).unwrap();
    vk_assert!(t.n == 1 && t.b[0] == a as u8, "[C04.le] write_u8");
}
