// K1 (frames): contracts on the nom packet parsers of src/packet.rs -- the seam the Verus unit U1
// assumes for `packet` (contracts/u1_packet.vrs, "K1 seam").
//
//  * fullpacket / onepacket: exact result slices (pointer and length), header bytes, the REAL
//    constant 16_777_215, input length symbolic up to 2^40 with lazy contents -> complete proofs.
//  * packet: composes the two through nom's fold_many0/pair/map. CBMC could not decide the composed
//    function within this sandbox's memory (see design-spikes/k1_packet_kani_attempt.rs); its contract
//    is checked by the BOUNDED native stand-in /verif/native/n1_packet.rs on real-size fragments.
//
//@ group k1_frames
//@ inject src/packet.rs
//@ default-clause C20.packet.nopanic
//@ harness k1_fullpacket tier=quick kind=complete fn=src/packet.rs::fullpacket
//@ harness k1_onepacket  tier=quick kind=complete fn=src/packet.rs::onepacket
//@ clause C01.fullpacket   Ok <=> input starts with FF FF FF and holds >= 4+0xFFFFFF bytes; payload = input[4..4+0xFFFFFF] by pointer, seq = input[3], rest = the remainder
//@ clause C01.onepacket    Ok <=> input holds >= 4+len bytes (len = le24 header); payload = input[4..4+len] by pointer, seq = input[3], rest = the remainder
//@ clause C01.packet       packet(i) == unframe(i): payload = concatenation of the fragments' payloads byte for byte, consumed length exact, Err(Error) iff incomplete
//@ clause C05.packet.lastseq the returned sequence id is that of the LAST fragment
//@ clause C20.packet.order the returned flag is true exactly when the fragments carried consecutive ids modulo 256 (never a panic, never Failure)
//@ clause C20.packet.nopanic no client bytes make the parsers panic (overflow, slice bounds, assert)
#![allow(unused_imports)]
use crate::packet::{fullpacket, onepacket, packet};
use crate::verif_kani_common::*;

const U24_MAX: usize = 16_777_215;

#[cfg(kani)]
#[kani::proof]
#[kani::unwind(5)]
pub fn k1_fullpacket() {
    let n: usize = vk::any();
    vk::assume(n <= (1usize << 40));
    let b = lazy_bytes(n);
    let i = &b[..n];
    let starts = n >= 3 && i[0] == 0xff && i[1] == 0xff && i[2] == 0xff;
    match fullpacket(i) {
        Ok((rest, (seq, bytes))) => {
            vk_cover!(true, "cover: a maximal fragment is accepted");
            vk_assert!(starts && n >= U24_MAX + 4, "[C01.fullpacket] accepted although not a complete maximal fragment");
            vk_assert!(seq == i[3], "[C01.fullpacket] wrong sequence byte");
            vk_assert!(bytes.len() == U24_MAX, "[C01.fullpacket] payload length is not 0xFFFFFF");
            vk_assert!(bytes.as_ptr() == unsafe { i.as_ptr().add(4) }, "[C01.fullpacket] payload does not start at offset 4");
            vk_assert!(rest.len() == n - 4 - U24_MAX, "[C01.fullpacket] wrong remainder length");
            vk_assert!(rest.as_ptr() == unsafe { i.as_ptr().add(4 + U24_MAX) }, "[C01.fullpacket] remainder does not follow the payload");
        }
        Err(e) => {
            vk_cover!(true, "cover: rejected");
            vk_assert!(!(starts && n >= U24_MAX + 4), "[C01.fullpacket] complete maximal fragment rejected");
            vk_assert!(matches!(e, nom::Err::Error(_)), "[C01.fullpacket] rejection must be a recoverable Error");
        }
    }
}

#[cfg(kani)]
#[kani::proof]
#[kani::unwind(5)]
pub fn k1_onepacket() {
    let n: usize = vk::any();
    vk::assume(n <= (1usize << 40));
    let b = lazy_bytes(n);
    let i = &b[..n];
    match onepacket(i) {
        Ok((rest, (seq, bytes))) => {
            vk_assert!(n >= 4, "[C01.onepacket] accepted without a header");
            let l = i[0] as usize + 256 * (i[1] as usize) + 65536 * (i[2] as usize);
            vk_cover!(l == U24_MAX, "cover: maximal length accepted by onepacket");
            vk_cover!(l == 0, "cover: empty packet accepted");
            vk_assert!(n >= 4 + l, "[C01.onepacket] accepted although the payload is incomplete");
            vk_assert!(seq == i[3], "[C01.onepacket] wrong sequence byte");
            vk_assert!(bytes.len() == l, "[C01.onepacket] payload length differs from the header");
            vk_assert!(bytes.as_ptr() == unsafe { i.as_ptr().add(4) }, "[C01.onepacket] payload does not start at offset 4");
            vk_assert!(rest.len() == n - 4 - l, "[C01.onepacket] wrong remainder length");
            vk_assert!(rest.as_ptr() == unsafe { i.as_ptr().add(4 + l) }, "[C01.onepacket] remainder does not follow the payload");
        }
        Err(e) => {
            if n >= 4 {
                let l = i[0] as usize + 256 * (i[1] as usize) + 65536 * (i[2] as usize);
                vk_assert!(n < 4 + l, "[C01.onepacket] complete packet rejected");
            }
            vk_assert!(matches!(e, nom::Err::Error(_)), "[C01.onepacket] rejection must be a recoverable Error");
        }
    }
}

