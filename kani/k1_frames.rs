// K1 (frames): contracts on the nom packet parsers of src/packet.rs -- the seam the Verus unit U1
// assumes for `packet` (contracts/u1_packet.vrs, "K1 seam").
//
//  * fullpacket / onepacket: exact result slices (pointer and length), header bytes, the REAL
//    constant 16_777_215, input length symbolic up to 2^40 with lazy contents -> complete proofs.
//  * packet: composes the two through nom's fold_many0/pair/map and never mentions the constant
//    itself. It is verified with `fullpacket` replaced (kani::stub) by a function that implements
//    exactly the contract proved above with the chunk size abstracted to K = 3, for up to 3
//    continuation fragments -> BOUNDED in fragment count (DESIGN.md C01); beyond that the seam
//    rests on fold_many0 being a fold.
//
//@ group k1_frames
//@ inject src/packet.rs
//@ default-clause C20.packet.nopanic
//@ harness k1_fullpacket tier=quick kind=complete fn=src/packet.rs::fullpacket
//@ harness k1_onepacket  tier=quick kind=complete fn=src/packet.rs::onepacket
//@ harness k1_packet_f2_inorder  tier=quick kind=bounded bound=at-most-2-continuation-fragments,chunk-size-abstracted-to-2,sequence-ids-7-8-9 fn=src/packet.rs::packet
//@ harness k1_packet_f2_wrap     tier=quick kind=bounded bound=at-most-2-continuation-fragments,chunk-size-abstracted-to-2,sequence-ids-254-255-0 fn=src/packet.rs::packet
//@ harness k1_packet_f2_ooo_mid  tier=quick kind=bounded bound=at-most-2-continuation-fragments,chunk-size-abstracted-to-2,sequence-ids-7-9-10 fn=src/packet.rs::packet
//@ harness k1_packet_f2_ooo_last tier=quick kind=bounded bound=at-most-2-continuation-fragments,chunk-size-abstracted-to-2,sequence-ids-7-8-8 fn=src/packet.rs::packet
//@ harness k1_packet_f3_inorder  tier=thorough kind=bounded bound=at-most-3-continuation-fragments,chunk-size-abstracted-to-2,sequence-ids-255-0-1-2 fn=src/packet.rs::packet
//@ harness k1_packet_f3_ooo      tier=thorough kind=bounded bound=at-most-3-continuation-fragments,chunk-size-abstracted-to-2,sequence-ids-3-4-5-7 fn=src/packet.rs::packet
//@ clause C01.fullpacket   Ok <=> input starts with FF FF FF and holds >= 4+0xFFFFFF bytes; payload = input[4..4+0xFFFFFF] by pointer, seq = input[3], rest = the remainder
//@ clause C01.onepacket    Ok <=> input holds >= 4+len bytes (len = le24 header); payload = input[4..4+len] by pointer, seq = input[3], rest = the remainder
//@ clause C01.packet       packet(i) == unframe(i): payload = concatenation of the fragments' payloads byte for byte, consumed length exact, Err(Error) iff incomplete
//@ clause C05.packet.lastseq the returned sequence id is that of the LAST fragment
//@ clause C20.packet.order the returned flag is true exactly when the fragments carried consecutive ids modulo 256 (never a panic, never Failure)
//@ clause C20.packet.nopanic no client bytes make the parsers panic (overflow, slice bounds, assert)
#![allow(unused_imports)]
use crate::packet::{fullpacket, onepacket, packet};
use crate::verif_kani_common::*;

const U24_MAX: usize = 16_777_215;

#[cfg(kani)]
#[kani::proof]
#[kani::unwind(5)]
pub fn k1_fullpacket() {
    let n: usize = vk::any();
    vk::assume(n <= (1usize << 40));
    let b = lazy_bytes(n);
    let i = &b[..n];
    let starts = n >= 3 && i[0] == 0xff && i[1] == 0xff && i[2] == 0xff;
    match fullpacket(i) {
        Ok((rest, (seq, bytes))) => {
            vk_cover!(true, "cover: a maximal fragment is accepted");
            vk_assert!(starts && n >= U24_MAX + 4, "[C01.fullpacket] accepted although not a complete maximal fragment");
            vk_assert!(seq == i[3], "[C01.fullpacket] wrong sequence byte");
            vk_assert!(bytes.len() == U24_MAX, "[C01.fullpacket] payload length is not 0xFFFFFF");
            vk_assert!(bytes.as_ptr() == unsafe { i.as_ptr().add(4) }, "[C01.fullpacket] payload does not start at offset 4");
            vk_assert!(rest.len() == n - 4 - U24_MAX, "[C01.fullpacket] wrong remainder length");
            vk_assert!(rest.as_ptr() == unsafe { i.as_ptr().add(4 + U24_MAX) }, "[C01.fullpacket] remainder does not follow the payload");
        }
        Err(e) => {
            vk_cover!(true, "cover: rejected");
            vk_assert!(!(starts && n >= U24_MAX + 4), "[C01.fullpacket] complete maximal fragment rejected");
            vk_assert!(matches!(e, nom::Err::Error(_)), "[C01.fullpacket] rejection must be a recoverable Error");
        }
    }
}

#[cfg(kani)]
#[kani::proof]
#[kani::unwind(5)]
pub fn k1_onepacket() {
    let n: usize = vk::any();
    vk::assume(n <= (1usize << 40));
    let b = lazy_bytes(n);
    let i = &b[..n];
    match onepacket(i) {
        Ok((rest, (seq, bytes))) => {
            vk_assert!(n >= 4, "[C01.onepacket] accepted without a header");
            let l = i[0] as usize + 256 * (i[1] as usize) + 65536 * (i[2] as usize);
            vk_cover!(l == U24_MAX, "cover: maximal length accepted by onepacket");
            vk_cover!(l == 0, "cover: empty packet accepted");
            vk_assert!(n >= 4 + l, "[C01.onepacket] accepted although the payload is incomplete");
            vk_assert!(seq == i[3], "[C01.onepacket] wrong sequence byte");
            vk_assert!(bytes.len() == l, "[C01.onepacket] payload length differs from the header");
            vk_assert!(bytes.as_ptr() == unsafe { i.as_ptr().add(4) }, "[C01.onepacket] payload does not start at offset 4");
            vk_assert!(rest.len() == n - 4 - l, "[C01.onepacket] wrong remainder length");
            vk_assert!(rest.as_ptr() == unsafe { i.as_ptr().add(4 + l) }, "[C01.onepacket] remainder does not follow the payload");
        }
        Err(e) => {
            if n >= 4 {
                let l = i[0] as usize + 256 * (i[1] as usize) + 65536 * (i[2] as usize);
                vk_assert!(n < 4 + l, "[C01.onepacket] complete packet rejected");
            }
            vk_assert!(matches!(e, nom::Err::Error(_)), "[C01.onepacket] rejection must be a recoverable Error");
        }
    }
}

// ---- packet(): fullpacket replaced by its proved contract with chunk size K
const K: usize = 2;
pub fn fullpacket_k(i: &[u8]) -> nom::IResult<&[u8], (u8, &[u8])> {
    if i.len() >= 4 + K && i[0] == 0xff && i[1] == 0xff && i[2] == 0xff {
        Ok((&i[4 + K..], (i[3], &i[4..4 + K])))
    } else {
        Err(nom::Err::Error(nom::error::Error::new(i, nom::error::ErrorKind::Tag)))
    }
}

macro_rules! k1_packet {
    ($name:ident, $maxf:expr, $tail:expr, $unwind:expr, $ids:expr) => {
        #[cfg(kani)]
        #[kani::proof]
        #[kani::stub(crate::packet::fullpacket, fullpacket_k)]
        #[kani::stub(std::fmt::format, fmt_stub)]
        #[kani::unwind($unwind)]
        pub fn $name() {
            const MAXF: usize = $maxf; // continuation fragments
            const TAIL: usize = $tail; // bytes available for the final packet's payload + slack
            const N: usize = MAXF * (4 + K) + 4 + TAIL;
            let mut b: [u8; N] = vk::any();
            let n: usize = vk::any();
            vk::assume(n <= N);
            // the sequence-id bytes of the possible fragment headers are fixed per harness (CBMC ran out
            // of memory with symbolic ids); the harness family covers in-order, wrap-around and
            // out-of-order patterns. Lengths and payload bytes stay symbolic.
            let ids: [u8; 4] = $ids;
            let mut j = 0;
            while j <= MAXF {
                b[j * (4 + K) + 3] = ids[j];
                j += 1;
            }
            let i = &b[..n];

            // spec side: unframe with chunk size K (DESIGN.md section 4), at most MAXF full fragments
            let mut pos = 0usize;
            let mut nfull = 0usize;
            let mut in_order = true;
            let mut prev_seq = 0u8;
            while nfull < MAXF && n >= pos + 4 + K && b[pos] == 0xff && b[pos + 1] == 0xff && b[pos + 2] == 0xff {
                if nfull > 0 && b[pos + 3] != prev_seq.wrapping_add(1) {
                    in_order = false;
                }
                prev_seq = b[pos + 3];
                pos += 4 + K;
                nfull += 1;
            }
            // exclude inputs with more than MAXF complete full fragments (the stated bound)
            vk::assume(!(n >= pos + 4 + K && b[pos] == 0xff && b[pos + 1] == 0xff && b[pos + 2] == 0xff));
            let have_last = n >= pos + 4 && {
                let l = b[pos] as usize + 256 * (b[pos + 1] as usize) + 65536 * (b[pos + 2] as usize);
                n >= pos + 4 + l
            };
            let r = packet(i);
            if have_last {
                let l = b[pos] as usize + 256 * (b[pos + 1] as usize) + 65536 * (b[pos + 2] as usize);
                let last_seq = b[pos + 3];
                if nfull > 0 && last_seq != prev_seq.wrapping_add(1) {
                    in_order = false;
                }
                vk_cover!(nfull == MAXF, "cover: maximal number of continuation fragments");
                vk_cover!(nfull == 1 && l == 0, "cover: exact multiple closed by an empty packet");
                match r {
                    Ok((rest, (seq, p, ok))) => {
                        vk_assert!(ok == in_order, "[C20.packet.order] the in-order flag does not say whether the fragment ids were consecutive");
                        vk_assert!(seq == last_seq, "[C05.packet.lastseq] returned id is not the last fragment's");
                        vk_assert!(p.len() == nfull * K + l, "[C01.packet] reassembled length differs");
                        vk_assert!(rest.len() == n - (pos + 4 + l), "[C01.packet] consumed length differs");
                        let k: usize = vk::any();
                        vk::assume(k < p.len());
                        let src = if k < nfull * K { (k / K) * (4 + K) + 4 + (k % K) } else { pos + 4 + (k - nfull * K) };
                        vk_assert!(p[k] == b[src], "[C01.packet] payload byte differs from its source byte");
                    }
                    Err(nom::Err::Failure(_)) => {
                        vk_assert!(false, "[C01.packet] complete message rejected with Failure");
                    }
                    Err(_) => {
                        vk_assert!(false, "[C01.packet] complete message reported incomplete");
                    }
                }
            } else {
                vk_cover!(nfull == 1, "cover: incomplete after one fragment");
                vk_assert!(
                    matches!(r, Err(nom::Err::Error(_)) | Err(nom::Err::Incomplete(_))),
                    "[C01.packet] incomplete message must yield a recoverable error"
                );
            }
        }
    };
}
k1_packet!(k1_packet_f2_inorder, 2, 2, 9, [7, 8, 9, 10]);
k1_packet!(k1_packet_f2_wrap, 2, 2, 9, [254, 255, 0, 1]);
k1_packet!(k1_packet_f2_ooo_mid, 2, 2, 9, [7, 9, 10, 11]);
k1_packet!(k1_packet_f2_ooo_last, 2, 2, 9, [7, 8, 8, 0]);
k1_packet!(k1_packet_f3_inorder, 3, 2, 10, [255, 0, 1, 2]);
k1_packet!(k1_packet_f3_ooo, 3, 2, 10, [3, 4, 5, 7]);
