// Shared helpers for the Kani-side contract harnesses (DESIGN.md section 3.3).
// Injected into a scratch copy of the crate as `crate::verif_kani_common` under
// `#[cfg(any(kani, verif_replay))]`. Nothing here touches a function under verification.
#![allow(dead_code, unused_imports, unused_macros)]

use crate::{Column, ColumnFlags, ColumnType};
use std::io::{self, Read, Write};

/// `vk`: one vocabulary for symbolic execution under Kani and for native replay of a counterexample.
#[cfg(kani)]
pub mod vk {
    pub fn any<T: kani::Arbitrary>() -> T {
        kani::any()
    }
    pub fn assume(c: bool) {
        kani::assume(c)
    }
}

#[cfg(not(kani))]
pub mod vk {
    use std::cell::RefCell;
    use std::collections::VecDeque;
    thread_local! { static Q: RefCell<VecDeque<Vec<u8>>> = RefCell::new(VecDeque::new()); }
    pub fn load(v: Vec<Vec<u8>>) {
        Q.with(|q| *q.borrow_mut() = v.into());
    }
    pub trait FromReplay: Sized {
        fn from_replay(b: &[u8]) -> Self;
    }
    macro_rules! prim {
        ($($t:ty),*) => {$(impl FromReplay for $t {
            fn from_replay(b: &[u8]) -> Self {
                let mut a = [0u8; std::mem::size_of::<$t>()];
                a.copy_from_slice(&b[..std::mem::size_of::<$t>()]);
                <$t>::from_le_bytes(a)
            }
        })*};
    }
    prim!(u8, i8, u16, i16, u32, i32, u64, i64, usize, isize, u128, i128);
    impl FromReplay for bool {
        fn from_replay(b: &[u8]) -> Self {
            b[0] != 0
        }
    }
    impl<const N: usize> FromReplay for [u8; N] {
        fn from_replay(b: &[u8]) -> Self {
            let mut a = [0u8; N];
            a.copy_from_slice(&b[..N]);
            a
        }
    }
    pub fn any<T: FromReplay>() -> T {
        let v = Q.with(|q| q.borrow_mut().pop_front()).expect("replay: ran out of concrete values");
        T::from_replay(&v)
    }
    pub fn assume(c: bool) {
        if !c {
            panic!("replay: assumption violated (values do not belong to this harness)");
        }
    }
}

/// Clause-tagged assertion: the message is what a failed obligation is named by.
macro_rules! vk_assert {
    ($c:expr, $m:literal) => {
        assert!($c, $m)
    };
}
pub(crate) use vk_assert;

/// Reachability witness; must be SATISFIED (vacuity guard). No-op natively.
macro_rules! vk_cover {
    ($c:expr, $m:literal) => {
        #[cfg(kani)]
        kani::cover!($c, $m);
    };
}
pub(crate) use vk_cover;

/// `std::fmt::format` stand-in: CBMC cannot execute std formatting (DESIGN section 2); only error
/// *messages* go through it in the functions under contract.
pub fn fmt_stub(_a: std::fmt::Arguments<'_>) -> String {
    String::new()
}

/// Results are stripped of their error value before a harness looks at them: the drop glue of
/// `std::io::Error` (`Box<dyn Error + Send + Sync>`, recursive over every `dyn Error` impl) is what
/// CBMC drowns in (k3_parse_fixed: > 900 s with it, 25 s without). The error value is leaked
/// (`mem::forget`), never inspected; no property speaks about destructors of error values.
pub fn noerr<T, E>(r: Result<T, E>) -> Result<T, ()> {
    match r {
        Ok(v) => Ok(v),
        Err(e) => {
            std::mem::forget(e);
            Err(())
        }
    }
}

/// `std::io::_print` stand-in (what `println!` expands to): decode.rs has a debugging
/// `println!("read {}", f)` in the FLOAT arm; float Display is out of CBMC's reach (time-out).
/// Standard output is not part of any property.
pub fn print_stub(_a: std::fmt::Arguments<'_>) {}

/// Fixed-capacity byte sink / empty source. `write` is all-or-nothing so that a write beyond the
/// sink shows up as Err, never as silent truncation.
pub struct Buf<const N: usize> {
    pub b: [u8; N],
    pub n: usize,
}
impl<const N: usize> Buf<N> {
    pub fn new() -> Self {
        Buf { b: [0; N], n: 0 }
    }
}
impl<const N: usize> Write for Buf<N> {
    fn write(&mut self, buf: &[u8]) -> io::Result<usize> {
        let k = buf.len();
        if self.n + k > N {
            return Err(io::Error::from(io::ErrorKind::WriteZero));
        }
        self.b[self.n..self.n + k].copy_from_slice(buf);
        self.n += k;
        Ok(k)
    }
    fn flush(&mut self) -> io::Result<()> {
        Ok(())
    }
}
impl<const N: usize> Read for Buf<N> {
    fn read(&mut self, _buf: &mut [u8]) -> io::Result<usize> {
        Ok(0)
    }
}

pub fn col(ct: ColumnType, unsigned: bool) -> Column {
    Column {
        table: String::new(),
        column: String::new(),
        coltype: ct,
        colflags: if unsigned { ColumnFlags::UNSIGNED_FLAG } else { ColumnFlags::empty() },
    }
}

pub fn col_flags(ct: ColumnType, flags: ColumnFlags) -> Column {
    Column { table: String::new(), column: String::new(), coltype: ct, colflags: flags }
}

/// A byte buffer of symbolic length n whose contents CBMC keeps lazy (never filled in a loop).
#[cfg(kani)]
pub fn lazy_bytes(n: usize) -> Vec<u8> {
    let mut v: Vec<u8> = Vec::with_capacity(n);
    unsafe {
        v.set_len(n);
    }
    v
}

/// Integer column geometry from the protocol: (min, max, width in bytes).
pub fn int_range(ct: ColumnType, unsigned: bool) -> Option<(i128, i128, usize)> {
    let w = match ct {
        ColumnType::MYSQL_TYPE_TINY => 1,
        ColumnType::MYSQL_TYPE_SHORT | ColumnType::MYSQL_TYPE_YEAR => 2,
        ColumnType::MYSQL_TYPE_LONG | ColumnType::MYSQL_TYPE_INT24 => 4,
        ColumnType::MYSQL_TYPE_LONGLONG => 8,
        _ => return None,
    };
    let bits = 8 * w as u32;
    Some(if unsigned {
        (0, (1i128 << bits) - 1, w)
    } else {
        (-(1i128 << (bits - 1)), (1i128 << (bits - 1)) - 1, w)
    })
}

/// What a conformant client reads from a fixed-width little-endian integer cell.
pub fn int_decode(b: &[u8], w: usize, unsigned: bool) -> i128 {
    let mut raw = [0u8; 8];
    let mut i = 0;
    while i < w {
        raw[i] = b[i];
        i += 1;
    }
    let u = u64::from_le_bytes(raw);
    if unsigned {
        u as i128
    } else {
        match w {
            1 => (u as u8 as i8) as i128,
            2 => (u as u16 as i16) as i128,
            4 => (u as u32 as i32) as i128,
            _ => (u as i64) as i128,
        }
    }
}

/// the protocol's length-encoded integer, written from the MySQL documentation
pub fn spec_lenenc(x: u64, out: &mut [u8; 9]) -> usize {
    if x < 251 {
        out[0] = x as u8;
        1
    } else if x < 65536 {
        out[0] = 0xFC;
        out[1] = (x & 0xff) as u8;
        out[2] = (x >> 8) as u8;
        3
    } else if x < 16777216 {
        out[0] = 0xFD;
        out[1] = (x & 0xff) as u8;
        out[2] = ((x >> 8) & 0xff) as u8;
        out[3] = (x >> 16) as u8;
        4
    } else {
        out[0] = 0xFE;
        let mut k = 0;
        while k < 8 {
            out[1 + k] = ((x >> (8 * k)) & 0xff) as u8;
            k += 1;
        }
        9
    }
}


/// Sink for `write_lenenc_str`-shaped output: header bytes (small writes from temporaries) are copied,
/// the payload is recognised by pointer identity with the expected buffer and recorded by length, so
/// no byte loop over a payload of symbolic size is ever executed.
pub struct RecSink {
    pub small: [u8; 16],
    pub n_small: usize,
    pub expect: *const u8,
    pub pay_len: usize,
    pub pay_calls: usize,
    pub bad: bool,
}
impl RecSink {
    pub fn new(expect: *const u8) -> Self {
        RecSink { small: [0; 16], n_small: 0, expect, pay_len: 0, pay_calls: 0, bad: false }
    }
}
impl Write for RecSink {
    fn write(&mut self, buf: &[u8]) -> io::Result<usize> {
        if buf.as_ptr() == self.expect && self.pay_calls == 0 {
            self.pay_len = buf.len();
            self.pay_calls = 1;
        } else if self.pay_calls == 0 && buf.len() <= 9 && self.n_small + buf.len() <= 16 {
            let mut i = 0;
            while i < buf.len() && i < 9 {
                self.small[self.n_small + i] = buf[i];
                i += 1;
            }
            self.n_small += buf.len();
        } else {
            self.bad = true;
        }
        Ok(buf.len())
    }
    fn flush(&mut self) -> io::Result<()> {
        Ok(())
    }
}

/// Did the sink receive exactly lenenc_int(n) followed by the n bytes of `data` (by identity)?
pub fn is_lenenc_str(s: &RecSink, n: usize, k1: usize) -> bool {
    let mut spec = [0u8; 9];
    let hl = spec_lenenc(n as u64, &mut spec);
    !s.bad && s.n_small == hl && (k1 >= hl || s.small[k1] == spec[k1]) && (if n > 0 { s.pay_calls == 1 && s.pay_len == n } else { s.pay_calls == 0 || s.pay_len == 0 })
}
