// K7 (tls): the library's own side of the TLS hand-over in src/tls.rs -- PrependedReader delivers the
// bytes that were already read from the socket (the unparsed tail PacketConn::switch_to_tls passes)
// BEFORE the rest of the socket stream, each byte exactly once and in order, under every chunking of
// the reads; writes and flushes go to the inner stream only; SwitchableConn::Plain forwards.
// BOUNDED: prepended <= 3 bytes, inner stream <= 3 bytes, <= 5 reads with symbolic buffer sizes.
// rustls (StreamOwned) is trusted; the Tls variant cannot be constructed inside CBMC.
//
//@ group k7_tls
//@ inject src/tls.rs
//@ default-clause C18.tls.nopanic
//@ harness k7_prepended_read  tier=quick kind=bounded bound=prepended<=3-bytes,inner<=3-bytes,5-reads-of-symbolic-size<=3 fn=src/tls.rs::PrependedReader::{new,read}
//@ harness k7_prepended_write tier=quick kind=bounded bound=writes-of<=3-bytes fn=src/tls.rs::PrependedReader::{write,flush}
//@ harness k7_switchable_plain tier=quick kind=bounded bound=buffers-of<=3-bytes fn=src/tls.rs::SwitchableConn::{new,read,write,flush}(Plain)
//@ clause C18.prepend.order  reads deliver prepended ++ inner in order, each byte exactly once, whatever the read sizes
//@ clause C18.prepend.write  write reaches the inner stream only and unchanged
//@ clause C12.prepend.flush  flush on the upgraded connection flushes the inner stream (replies do not stay buffered under TLS)
//@ clause C18.plain.route    before the upgrade SwitchableConn forwards read/write/flush to the plain stream
//@ clause C18.tls.nopanic    no panic
#![allow(unused_imports)]
use crate::tls::{PrependedReader, SwitchableConn};
use crate::verif_kani_common::*;
use std::io::{self, Read, Write};

pub struct MockRW {
    pub data: [u8; 3],
    pub len: usize,
    pub pos: usize,
    pub wrote: [u8; 4],
    pub nwrote: usize,
    pub flushes: usize,
    /// where a harness that gives the stream away can still see what reached it
    pub seen: *mut Seen,
}
#[derive(Clone, Copy)]
pub struct Seen {
    pub wrote: [u8; 4],
    pub nwrote: usize,
    pub flushes: usize,
}
impl Read for MockRW {
    fn read(&mut self, buf: &mut [u8]) -> io::Result<usize> {
        // hands out any number of the remaining bytes (at least one if possible)
        let avail = self.len - self.pos;
        let mut n: usize = vk::any();
        vk::assume(n <= avail && n <= buf.len() && (n > 0 || avail == 0 || buf.len() == 0));
        let mut i = 0;
        while i < n {
            buf[i] = self.data[self.pos + i];
            i += 1;
        }
        self.pos += n;
        let _ = &mut n;
        Ok(n)
    }
}
impl Write for MockRW {
    fn write(&mut self, buf: &[u8]) -> io::Result<usize> {
        let mut i = 0;
        while i < buf.len() && self.nwrote < 4 {
            self.wrote[self.nwrote] = buf[i];
            self.nwrote += 1;
            i += 1;
        }
        if !self.seen.is_null() {
            unsafe {
                (*self.seen).wrote = self.wrote;
                (*self.seen).nwrote = self.nwrote;
            }
        }
        Ok(i)
    }
    fn flush(&mut self) -> io::Result<()> {
        self.flushes += 1;
        if !self.seen.is_null() {
            unsafe {
                (*self.seen).flushes = self.flushes;
            }
        }
        Ok(())
    }
}
fn mock() -> MockRW {
    let data: [u8; 3] = vk::any();
    let len: usize = vk::any();
    vk::assume(len <= 3);
    MockRW { data, len, pos: 0, wrote: [0; 4], nwrote: 0, flushes: 0, seen: std::ptr::null_mut() }
}

#[cfg_attr(kani, kani::proof)]
#[cfg_attr(kani, kani::unwind(8))]
pub fn k7_prepended_read() {
    let pre: [u8; 3] = vk::any();
    let plen: usize = vk::any();
    vk::assume(plen <= 3);
    let inner = mock();
    let (idata, ilen) = (inner.data, inner.len);
    let mut r = PrependedReader::new(&pre[..plen], inner);
    let mut out = [0u8; 8];
    let mut total = 0usize;
    let mut k = 0;
    while k < 5 {
        let mut buf = [0u8; 3];
        let want: usize = vk::any();
        vk::assume(want >= 1 && want <= 3);
        let n = r.read(&mut buf[..want]).unwrap();
        vk_assert!(n <= want, "[C18.prepend.order] read returned more than the buffer holds");
        let mut i = 0;
        while i < n {
            if total < 8 {
                out[total] = buf[i];
            }
            total += 1;
            i += 1;
        }
        k += 1;
    }
    vk_cover!(plen == 3 && ilen == 3 && total == 6, "cover: everything delivered");
    vk_cover!(plen == 0 && total > 0, "cover: nothing prepended");
    vk_assert!(total <= plen + ilen, "[C18.prepend.order] more bytes delivered than exist (a byte was duplicated)");
    let j: usize = vk::any();
    vk::assume(j < total);
    let expect = if j < plen { pre[j] } else { idata[j - plen] };
    vk_assert!(out[j] == expect, "[C18.prepend.order] byte out of order, lost or not from the prepended tail first");
}

#[cfg_attr(kani, kani::proof)]
#[cfg_attr(kani, kani::unwind(8))]
pub fn k7_prepended_write() {
    let pre: [u8; 2] = vk::any();
    let mut seen = Seen { wrote: [0; 4], nwrote: 0, flushes: 0 };
    let mut inner = mock();
    inner.seen = &mut seen as *mut Seen;
    let mut r = PrependedReader::new(&pre[..], inner);
    let w: [u8; 3] = vk::any();
    let wl: usize = vk::any();
    vk::assume(wl <= 3);
    let n = r.write(&w[..wl]).unwrap();
    let before_flush = seen.flushes;
    r.flush().unwrap();
    // the bytes and the flush reached the SOCKET (not the cursor over the prepended bytes)
    vk_assert!(seen.nwrote == wl, "[C18.prepend.write] the written bytes did not reach the inner stream");
    let j: usize = vk::any();
    vk::assume(j < wl);
    vk_assert!(seen.wrote[j] == w[j], "[C18.prepend.write] the inner stream received different bytes");
    vk_assert!(before_flush == 0 && seen.flushes == 1, "[C12.prepend.flush] flush did not reach the inner stream exactly once");
    // reading afterwards still starts with the prepended bytes: writes did not disturb the read side
    let mut b = [0u8; 1];
    let got = r.read(&mut b).unwrap();
    vk_assert!(got == 1 && b[0] == pre[0], "[C18.prepend.write] a write disturbed the prepended bytes");
    vk_assert!(n == wl, "[C18.prepend.write] write did not reach the inner stream completely");
    vk_cover!(wl == 3, "cover: three bytes written");
}

#[cfg_attr(kani, kani::proof)]
#[cfg_attr(kani, kani::unwind(8))]
pub fn k7_switchable_plain() {
    let inner = mock();
    let (idata, ilen) = (inner.data, inner.len);
    let mut c = SwitchableConn::new(inner);
    let mut buf = [0u8; 3];
    let n = c.read(&mut buf).unwrap();
    vk_assert!(n <= ilen, "[C18.plain.route] read delivered more than the plain stream holds");
    let j: usize = vk::any();
    vk::assume(j < n);
    vk_assert!(buf[j] == idata[j], "[C18.plain.route] read did not come from the plain stream");
    let w: [u8; 2] = vk::any();
    let m = c.write(&w).unwrap();
    c.flush().unwrap();
    vk_assert!(m == 2, "[C18.plain.route] write not forwarded");
    match &c.0 {
        Some(crate::tls::EitherConn::Plain(p)) => {
            vk_assert!(p.nwrote == 2 && p.wrote[0] == w[0] && p.wrote[1] == w[1] && p.flushes == 1, "[C18.plain.route] write/flush did not reach the plain stream unchanged");
        }
        _ => vk_assert!(false, "[C18.plain.route] connection is not in the Plain variant before any upgrade"),
    }
    vk_cover!(n == 3, "cover: three bytes read through SwitchableConn");
}
