// K4 (non-integer values): contracts on the binary encoders (`to_mysql_bin`) of bytes/str/String/Vec,
// Option, f32/f64, NaiveDate, NaiveDateTime, Duration and the generic myc::Value of
// src/value/encode.rs, plus the text encoders that do not go through std formatting
// (`Option`, byte strings). All harnesses are loop-free over full-domain symbolic inputs.
//
//@ group k4_values
//@ inject src/value/encode.rs
//@ default-clause C07.bin.nopanic
//@ harness k4_bytes_bin     tier=quick kind=complete fn=src/value/encode.rs::<[u8]>::to_mysql_bin
//@ harness k4_forwarders    tier=quick kind=bounded bound=byte-strings-of-2-bytes fn=src/value/encode.rs::<Vec<u8>|&T>::to_mysql_bin/to_mysql_text
//@ harness k4_forwarders_str tier=quick kind=bounded bound=ascii-strings-of-2-bytes fn=src/value/encode.rs::<str|String>::to_mysql_bin/to_mysql_text
//@ harness k4_bytes_text    tier=quick kind=complete fn=src/value/encode.rs::<[u8]>::to_mysql_text
//@ harness k4_option        tier=quick kind=complete fn=src/value/encode.rs::<Option<T>>::{to_mysql_bin,is_null}
//@ harness k4_option_text   tier=quick kind=complete fn=src/value/encode.rs::<Option<T>>::to_mysql_text
//@ harness k4_floats_bin    tier=quick kind=complete fn=src/value/encode.rs::<f32|f64>::to_mysql_bin
//@ harness k4_date_bin      tier=quick kind=complete fn=src/value/encode.rs::<NaiveDate>::to_mysql_bin
//@ harness k4_datetime_bin  tier=quick kind=complete fn=src/value/encode.rs::<NaiveDateTime>::to_mysql_bin
//@ harness k4_duration_bin  tier=quick kind=complete fn=src/value/encode.rs::<Duration>::to_mysql_bin
//@ harness k4_generic_bin   tier=quick kind=complete fn=src/value/encode.rs::<myc::value::Value>::to_mysql_bin(Bytes|Float|Double)
//@ harness k4_generic_date_bin tier=quick kind=complete fn=src/value/encode.rs::<myc::value::Value>::to_mysql_bin(Date,every-column-type)
//@ clause C07.bin.bytes    byte strings: Ok exactly on the 14 string-like column types, writing lenenc_str(bytes) for every length; else Err, nothing written
//@ clause C07.bin.float    f32 -> FLOAT 4 bytes / DOUBLE 8 bytes (widened), f64 -> DOUBLE 8 bytes, IEEE bits little-endian; else Err
//@ clause C07.bin.date     NaiveDate -> DATE: [4, year lo, year hi, month, day]; else Err
//@ clause C07.bin.datetime NaiveDateTime -> DATETIME/TIMESTAMP: [7|11, y, m, d, h, mi, s, (micros)] with micros present iff non-zero; else Err
//@ clause C07.bin.time     Duration -> TIME: [0] for zero, else [8|12, 0, days(4), h, m, s, (micros)] decoding to the same duration; out of range or other column => Err
//@ clause C07.bin.option   Some(v) encodes as v; is_null() iff None
//@ clause C07.bin.generic  myc::Value dispatches to the encoder of the carried value
//@ clause C07.bin.refuse   Err => nothing written
//@ clause C06.text.bytes   byte strings in text protocol: lenenc_str(bytes) for every length
//@ clause C06.text.null    None is the single byte 0xFB; Some(v) is v's encoding; no value other than None / generic NULL reports is_null()
//@ clause C07.bin.nopanic  the encoder returns (Ok or Err) and never panics
#![allow(unused_imports)]
use crate::value::ToMysqlValue;
use crate::verif_kani_common::*;
use crate::{Column, ColumnFlags, ColumnType};
use chrono::{Datelike, NaiveDate, NaiveDateTime, Timelike};
use std::time::Duration;

pub fn same16(a: &[u8; 16], b: &[u8; 16]) -> bool {
    u128::from_le_bytes(*a) == u128::from_le_bytes(*b)
}

pub fn stringlike(ct: ColumnType) -> bool {
    matches!(
        ct,
        ColumnType::MYSQL_TYPE_STRING
            | ColumnType::MYSQL_TYPE_VAR_STRING
            | ColumnType::MYSQL_TYPE_BLOB
            | ColumnType::MYSQL_TYPE_TINY_BLOB
            | ColumnType::MYSQL_TYPE_MEDIUM_BLOB
            | ColumnType::MYSQL_TYPE_LONG_BLOB
            | ColumnType::MYSQL_TYPE_SET
            | ColumnType::MYSQL_TYPE_ENUM
            | ColumnType::MYSQL_TYPE_DECIMAL
            | ColumnType::MYSQL_TYPE_VARCHAR
            | ColumnType::MYSQL_TYPE_BIT
            | ColumnType::MYSQL_TYPE_NEWDECIMAL
            | ColumnType::MYSQL_TYPE_GEOMETRY
            | ColumnType::MYSQL_TYPE_JSON
    )
}

pub fn any_col() -> Option<Column> {
    let code: u8 = vk::any();
    let flags: u16 = vk::any();
    match ColumnType::try_from(code) {
        Ok(ct) => Some(col_flags(ct, ColumnFlags::from_bits_truncate(flags))),
        Err(_) => None,
    }
}

#[cfg(kani)]
#[kani::proof]
#[kani::stub(std::fmt::format, fmt_stub)]
#[kani::unwind(10)]
pub fn k4_bytes_bin() {
    let n: usize = vk::any();
    vk::assume(n <= (1usize << 40));
    let data = lazy_bytes(n);
    let c = match any_col() {
        Some(c) => c,
        None => return,
    };
    let mut s = RecSink::new(data.as_ptr());
    let r = noerr(data[..].to_mysql_bin(&mut s, &c));
    vk_assert!(!data[..].is_null(), "[C06.text.null] a value that is not NULL reports is_null(): the row writer would send NULL instead of it");
    let k1: usize = vk::any();
    if stringlike(c.coltype) {
        vk_cover!(n > 250, "cover: byte string beyond the 1-byte length class");
        vk_assert!(r.is_ok(), "[C07.bin.bytes] byte string refused for a string-like column");
        vk_assert!(is_lenenc_str(&s, n, k1), "[C07.bin.bytes] not lenenc_str(bytes)");
    } else {
        vk_cover!(true, "cover: non-string column");
        vk_assert!(r.is_err(), "[C07.bin.bytes] byte string accepted for a column that cannot carry it");
        vk_assert!(s.n_small == 0 && s.pay_calls == 0 && !s.bad, "[C07.bin.refuse] refused value left bytes behind");
    }
}

#[cfg_attr(kani, kani::proof)]
#[cfg_attr(kani, kani::stub(std::fmt::format, fmt_stub))]
#[cfg_attr(kani, kani::unwind(10))]
pub fn k4_forwarders() {
    // Vec<u8>, &Vec<u8>, &&[u8] forward to the [u8] impl (whose all-lengths contract is k4_bytes_bin /
    // k4_bytes_text); two-byte strings here
    let raw: [u8; 2] = vk::any();
    let data: Vec<u8> = vec![raw[0], raw[1]];
    let c = col(ColumnType::MYSQL_TYPE_VAR_STRING, false);
    let which: u8 = vk::any();
    let text: bool = vk::any();
    let mut b = Buf::<8>::new();
    let r = match which {
        1 => {
            let r = &data;
            if text { r.to_mysql_text(&mut b) } else { r.to_mysql_bin(&mut b, &c) }
        }
        2 => {
            let r: &&[u8] = &&data[..];
            if text { r.to_mysql_text(&mut b) } else { r.to_mysql_bin(&mut b, &c) }
        }
        _ => {
            if text { data.to_mysql_text(&mut b) } else { data.to_mysql_bin(&mut b, &c) }
        }
    };
    vk_cover!(which == 1 && text, "cover: &Vec<u8> text");
    vk_cover!(which == 3 && !text, "cover: Vec<u8> bin");
    vk_assert!(r.is_ok() && b.n == 3 && b.b[0] == 2 && b.b[1] == raw[0] && b.b[2] == raw[1], "[C07.bin.bytes] forwarding impl did not write lenenc_str(bytes)");
}

#[cfg_attr(kani, kani::proof)]
#[cfg_attr(kani, kani::stub(std::fmt::format, fmt_stub))]
#[cfg_attr(kani, kani::unwind(6))]
pub fn k4_forwarders_str() {
    // str / String forward `as_bytes()`; two-byte ASCII strings (bounded in length; the all-lengths
    // fact is the [u8] contract above)
    let raw: [u8; 2] = vk::any();
    vk::assume(raw[0] < 128 && raw[1] < 128);
    let st: &str = unsafe { std::str::from_utf8_unchecked(&raw[..]) };
    let c = col(ColumnType::MYSQL_TYPE_VAR_STRING, false);
    let text: bool = vk::any();
    let mut b = Buf::<8>::new();
    let r = noerr(if text { st.to_mysql_text(&mut b) } else { st.to_mysql_bin(&mut b, &c) });
    vk_assert!(!st.is_null(), "[C06.text.null] a value that is not NULL reports is_null(): the row writer would send NULL instead of it");
    vk_cover!(text, "cover: str text");
    vk_assert!(r.is_ok() && b.n == 3 && b.b[0] == 2 && b.b[1] == raw[0] && b.b[2] == raw[1], "[C07.bin.bytes] str not encoded as lenenc_str(as_bytes())");
    let owned: String = unsafe { String::from_utf8_unchecked(vec![raw[0], raw[1]]) };
    let mut b2 = Buf::<8>::new();
    let r2 = noerr(if text { owned.to_mysql_text(&mut b2) } else { owned.to_mysql_bin(&mut b2, &c) });
    vk_assert!(!owned.is_null(), "[C06.text.null] a value that is not NULL reports is_null(): the row writer would send NULL instead of it");
    vk_assert!(r2.is_ok() && b2.n == 3 && b2.b[0] == 2 && b2.b[1] == raw[0] && b2.b[2] == raw[1], "[C07.bin.bytes] String not encoded as lenenc_str(as_bytes())");
}

#[cfg(kani)]
#[kani::proof]
#[kani::unwind(10)]
pub fn k4_bytes_text() {
    let n: usize = vk::any();
    vk::assume(n <= (1usize << 40));
    let data = lazy_bytes(n);
    let mut s = RecSink::new(data.as_ptr());
    let r = noerr(data[..].to_mysql_text(&mut s));
    vk_assert!(!data[..].is_null(), "[C06.text.null] a value that is not NULL reports is_null(): the row writer would send NULL instead of it");
    let k1: usize = vk::any();
    vk_cover!(n == 0, "cover: empty string");
    vk_cover!(n > 65535, "cover: string beyond 65535 bytes");
    vk_assert!(r.is_ok(), "[C06.text.bytes] text encoding of bytes failed");
    vk_assert!(is_lenenc_str(&s, n, k1), "[C06.text.bytes] not lenenc_str(bytes)");
    // NULL stays distinguishable: the first byte of a length-encoded string is never 0xFB
    vk_assert!(s.small[0] != 0xFB, "[C06.text.null] string encoding collides with the NULL marker");
}

#[cfg_attr(kani, kani::proof)]
#[cfg_attr(kani, kani::stub(std::fmt::format, fmt_stub))]
#[cfg_attr(kani, kani::unwind(10))]
pub fn k4_option() {
    // Option<T> is generic: instantiate T with i16 (fixed width) -- the impl forwards to T untouched
    let some: bool = vk::any();
    let x: i16 = vk::any();
    let v: Option<i16> = if some { Some(x) } else { None };
    vk_assert!(v.is_null() == !some, "[C07.bin.option] is_null() must be true exactly for None");
    vk_cover!(some, "cover: Some");
    vk_cover!(!some, "cover: None");
    if some {
        let ci = col(ColumnType::MYSQL_TYPE_SHORT, false);
        let mut bi = Buf::<8>::new();
        let r = noerr(v.to_mysql_bin(&mut bi, &ci));
        vk_assert!(r.is_ok() && bi.n == 2 && i16::from_le_bytes([bi.b[0], bi.b[1]]) == x, "[C07.bin.option] Some(v) binary encoding is not v's");
    }
}

#[cfg_attr(kani, kani::proof)]
#[cfg_attr(kani, kani::unwind(10))]
pub fn k4_option_text() {
    let some: bool = vk::any();
    let raw: [u8; 2] = vk::any();
    let inner: &[u8] = &raw[..];
    let v: Option<&[u8]> = if some { Some(inner) } else { None };
    let mut t = Buf::<8>::new();
    let r = noerr(v.to_mysql_text(&mut t));
    vk_assert!(r.is_ok(), "[C06.text.null] Option text encoding failed");
    vk_cover!(!some, "cover: NULL in text protocol");
    if some {
        vk_assert!(t.n == 3 && t.b[0] == 2 && t.b[1] == raw[0] && t.b[2] == raw[1], "[C06.text.null] Some(v) is not v's encoding");
    } else {
        vk_assert!(t.n == 1 && t.b[0] == 0xFB, "[C06.text.null] None is not the single byte 0xFB");
    }
}

#[cfg_attr(kani, kani::proof)]
#[cfg_attr(kani, kani::stub(std::fmt::format, fmt_stub))]
#[cfg_attr(kani, kani::unwind(10))]
pub fn k4_floats_bin() {
    let bits32: u32 = vk::any();
    let bits64: u64 = vk::any();
    let f = f32::from_bits(bits32);
    let d = f64::from_bits(bits64);
    let c = match any_col() {
        Some(c) => c,
        None => return,
    };
    let mut b = Buf::<16>::new();
    let r = noerr(f.to_mysql_bin(&mut b, &c));
    vk_assert!(!f.is_null(), "[C06.text.null] a value that is not NULL reports is_null(): the row writer would send NULL instead of it");
    vk_cover!(c.coltype == ColumnType::MYSQL_TYPE_DOUBLE && f.is_nan(), "cover: NaN into DOUBLE");
    vk_cover!(c.coltype == ColumnType::MYSQL_TYPE_TINY, "cover: float into an integer column");
    match c.coltype {
        ColumnType::MYSQL_TYPE_FLOAT => {
            vk_assert!(r.is_ok() && b.n == 4, "[C07.bin.float] f32 into FLOAT must be 4 bytes");
            vk_assert!(u32::from_le_bytes([b.b[0], b.b[1], b.b[2], b.b[3]]) == bits32, "[C07.bin.float] f32 bits altered");
        }
        ColumnType::MYSQL_TYPE_DOUBLE => {
            vk_assert!(r.is_ok() && b.n == 8, "[C07.bin.float] f32 into DOUBLE must be 8 bytes");
            let got = f64::from_bits(u64::from_le_bytes([b.b[0], b.b[1], b.b[2], b.b[3], b.b[4], b.b[5], b.b[6], b.b[7]]));
            // the client reads a double that is numerically the same value (NaN stays NaN)
            vk_assert!(got == f as f64 || (got.is_nan() && f.is_nan()), "[C07.bin.float] f32 widened to a different double");
        }
        _ => {
            vk_assert!(r.is_err() && b.n == 0, "[C07.bin.float] f32 accepted for a non-float column");
        }
    }
    let mut b2 = Buf::<16>::new();
    let r2 = noerr(d.to_mysql_bin(&mut b2, &c));
    vk_assert!(!d.is_null(), "[C06.text.null] a value that is not NULL reports is_null(): the row writer would send NULL instead of it");
    match c.coltype {
        ColumnType::MYSQL_TYPE_DOUBLE => {
            vk_assert!(r2.is_ok() && b2.n == 8, "[C07.bin.float] f64 into DOUBLE must be 8 bytes");
            vk_assert!(
                u64::from_le_bytes([b2.b[0], b2.b[1], b2.b[2], b2.b[3], b2.b[4], b2.b[5], b2.b[6], b2.b[7]]) == bits64,
                "[C07.bin.float] f64 bits altered"
            );
        }
        _ => {
            vk_assert!(r2.is_err() && b2.n == 0, "[C07.bin.float] f64 accepted for a column that cannot carry it");
        }
    }
}

#[cfg_attr(kani, kani::proof)]
#[cfg_attr(kani, kani::stub(std::fmt::format, fmt_stub))]
#[cfg_attr(kani, kani::unwind(10))]
pub fn k4_date_bin() {
    let y: i32 = vk::any();
    let m: u32 = vk::any();
    let dd: u32 = vk::any();
    // every date chrono can represent (years far outside 0..=9999 included): the wire has 16 bits for the year
    vk::assume(m >= 1 && m <= 12 && dd >= 1 && dd <= 31);
    let d = match NaiveDate::from_ymd_opt(y, m, dd) {
        Some(d) => d,
        None => return,
    };
    let c = match any_col() {
        Some(c) => c,
        None => return,
    };
    let mut b = Buf::<16>::new();
    let r = noerr(d.to_mysql_bin(&mut b, &c));
    vk_assert!(!d.is_null(), "[C06.text.null] a value that is not NULL reports is_null(): the row writer would send NULL instead of it");
    if c.coltype == ColumnType::MYSQL_TYPE_DATE && (y < 0 || y > 65535) {
        vk_cover!(y > 65535, "cover: a year beyond the 16-bit wire field");
        vk_cover!(y < 0, "cover: a negative year");
        vk_assert!(r.is_err() && b.n == 0, "[C07.bin.date] a date whose year does not fit the wire format must be refused, not sent as another year");
    } else if c.coltype == ColumnType::MYSQL_TYPE_DATE {
        vk_cover!(y == 9999 && m == 12 && dd == 31, "cover: last day of year 9999");
        vk_assert!(r.is_ok() && b.n == 5 && b.b[0] == 4, "[C07.bin.date] DATE must be the 4-byte form");
        vk_assert!(
            u16::from_le_bytes([b.b[1], b.b[2]]) as i32 == y && b.b[3] as u32 == m && b.b[4] as u32 == dd,
            "[C07.bin.date] year/month/day differ"
        );
    } else {
        vk_assert!(r.is_err() && b.n == 0, "[C07.bin.date] date accepted for a non-DATE column");
    }
}

#[cfg_attr(kani, kani::proof)]
#[cfg_attr(kani, kani::stub(std::fmt::format, fmt_stub))]
#[cfg_attr(kani, kani::unwind(10))]
pub fn k4_datetime_bin() {
    let y: i32 = vk::any();
    let m: u32 = vk::any();
    let dd: u32 = vk::any();
    // full nanosecond resolution: what the protocol carries is the microsecond part, sub-microsecond
    // digits are cut off (a value with 1..999 ns is a value WITHOUT microseconds)
    let (h, mi, s, ns): (u32, u32, u32, u32) = (vk::any(), vk::any(), vk::any(), vk::any());
    vk::assume(m >= 1 && m <= 12 && dd >= 1 && dd <= 31);
    // (chrono's leap-second representation, nanoseconds >= 10^9, is outside the domain: MySQL has no leap seconds)
    vk::assume(h < 24 && mi < 60 && s < 60 && ns < 1_000_000_000);
    let us = ns / 1000;
    vk_cover!(ns % 1000 != 0 && us == 0, "cover: sub-microsecond value");
    let d = match NaiveDate::from_ymd_opt(y, m, dd).and_then(|d| d.and_hms_nano_opt(h, mi, s, ns)) {
        Some(d) => d,
        None => return,
    };
    let c = match any_col() {
        Some(c) => c,
        None => return,
    };
    let mut b = Buf::<16>::new();
    let r = noerr(d.to_mysql_bin(&mut b, &c));
    vk_assert!(!d.is_null(), "[C06.text.null] a value that is not NULL reports is_null(): the row writer would send NULL instead of it");
    let dt_col = c.coltype == ColumnType::MYSQL_TYPE_DATETIME || c.coltype == ColumnType::MYSQL_TYPE_TIMESTAMP;
    if dt_col && (y < 0 || y > 65535) {
        vk_cover!(y > 65535, "cover: a year beyond the 16-bit wire field");
        vk_assert!(r.is_err() && b.n == 0, "[C07.bin.datetime] a datetime whose year does not fit the wire format must be refused, not sent as another year");
    } else if dt_col {
        vk_cover!(us != 0, "cover: datetime with microseconds");
        vk_cover!(us == 0, "cover: datetime without microseconds");
        vk_assert!(r.is_ok(), "[C07.bin.datetime] datetime refused for DATETIME/TIMESTAMP");
        let want = if us != 0 { 11 } else { 7 };
        vk_assert!(b.b[0] == want && b.n == 1 + want as usize, "[C07.bin.datetime] length form: micros present iff non-zero");
        vk_assert!(
            u16::from_le_bytes([b.b[1], b.b[2]]) as i32 == y && b.b[3] as u32 == m && b.b[4] as u32 == dd,
            "[C07.bin.datetime] date part differs"
        );
        vk_assert!(b.b[5] as u32 == h && b.b[6] as u32 == mi && b.b[7] as u32 == s, "[C07.bin.datetime] time part differs");
        if us != 0 {
            vk_assert!(u32::from_le_bytes([b.b[8], b.b[9], b.b[10], b.b[11]]) == us, "[C07.bin.datetime] microseconds differ");
        }
    } else {
        vk_assert!(r.is_err() && b.n == 0, "[C07.bin.datetime] datetime accepted for another column type");
    }
}

#[cfg_attr(kani, kani::proof)]
#[cfg_attr(kani, kani::stub(std::fmt::format, fmt_stub))]
#[cfg_attr(kani, kani::unwind(10))]
pub fn k4_duration_bin() {
    let secs: u64 = vk::any();
    let ns: u32 = vk::any();
    vk::assume(ns < 1_000_000_000);
    let us = ns / 1000;
    vk_cover!(ns % 1000 != 0 && us == 0, "cover: sub-microsecond duration");
    let d = Duration::new(secs, ns);
    let c = match any_col() {
        Some(c) => c,
        None => return,
    };
    let mut b = Buf::<16>::new();
    let r = noerr(d.to_mysql_bin(&mut b, &c));
    vk_assert!(!d.is_null(), "[C06.text.null] a value that is not NULL reports is_null(): the row writer would send NULL instead of it");
    if c.coltype == ColumnType::MYSQL_TYPE_TIME {
        if r.is_ok() {
            if secs == 0 && us == 0 {
                vk_assert!(b.n == 1 && b.b[0] == 0, "[C07.bin.time] zero duration must be the 0-length form");
            } else {
                let want = if us != 0 { 12 } else { 8 };
                vk_cover!(us != 0, "cover: TIME with microseconds");
                vk_assert!(b.b[0] == want && b.n == 1 + want as usize, "[C07.bin.time] length form: micros present iff non-zero");
                vk_assert!(b.b[1] == 0, "[C07.bin.time] sign byte must be 0 (positive)");
                let days = u32::from_le_bytes([b.b[2], b.b[3], b.b[4], b.b[5]]) as u64;
                let (h, mi, s) = (b.b[6] as u64, b.b[7] as u64, b.b[8] as u64);
                vk_assert!(h < 24 && mi < 60 && s < 60, "[C07.bin.time] hour/minute/second out of range");
                vk_assert!(days * 86400 + h * 3600 + mi * 60 + s == secs, "[C07.bin.time] client decodes a different duration");
                if us != 0 {
                    vk_assert!(u32::from_le_bytes([b.b[9], b.b[10], b.b[11], b.b[12]]) == us, "[C07.bin.time] microseconds differ");
                }
            }
        } else {
            vk_assert!(b.n == 0, "[C07.bin.refuse] refused duration left bytes behind");
        }
        // MySQL TIME spans at most 838:59:59; everything up to 34 days must be accepted
        if secs < 34 * 86400 {
            vk_assert!(r.is_ok(), "[C07.bin.time] representable duration refused");
        }
    } else {
        vk_assert!(r.is_err() && b.n == 0, "[C07.bin.time] duration accepted for a non-TIME column");
    }
}

#[cfg_attr(kani, kani::proof)]
#[cfg_attr(kani, kani::stub(std::fmt::format, fmt_stub))]
#[cfg_attr(kani, kani::unwind(10))]
pub fn k4_generic_bin() {
    use crate::myc::value::Value as V;
    let c = match any_col() {
        Some(c) => c,
        None => return,
    };
    let which: u8 = vk::any();
    let raw: [u8; 2] = vk::any();
    let bits32: u32 = vk::any();
    let bits64: u64 = vk::any();
    let mut b = Buf::<16>::new();
    let mut b2 = Buf::<16>::new();
    vk_cover!(which == 0 && stringlike(c.coltype), "cover: generic bytes into a string column");
    vk_cover!(which == 2, "cover: generic double");
    match which {
        0 => {
            let v = V::Bytes(vec![raw[0], raw[1]]);
            let r = noerr(v.to_mysql_bin(&mut b, &c));
            let r2 = noerr(raw[..].to_mysql_bin(&mut b2, &c));
            vk_assert!(r.is_ok() == r2.is_ok() && b.n == b2.n && same16(&b.b, &b2.b), "[C07.bin.generic] Bytes not encoded like a byte string");
            vk_assert!(!v.is_null(), "[C07.bin.generic] non-NULL generic value claims to be NULL");
        }
        1 => {
            let f = f32::from_bits(bits32);
            let r = noerr(V::Float(f).to_mysql_bin(&mut b, &c));
            let r2 = noerr(f.to_mysql_bin(&mut b2, &c));
            vk_assert!(r.is_ok() == r2.is_ok() && b.n == b2.n && same16(&b.b, &b2.b), "[C07.bin.generic] Float not encoded like f32");
        }
        2 => {
            let f = f64::from_bits(bits64);
            let r = noerr(V::Double(f).to_mysql_bin(&mut b, &c));
            let r2 = noerr(f.to_mysql_bin(&mut b2, &c));
            vk_assert!(r.is_ok() == r2.is_ok() && b.n == b2.n && same16(&b.b, &b2.b), "[C07.bin.generic] Double not encoded like f64");
        }
        _ => {
            vk_assert!(V::NULL.is_null(), "[C07.bin.generic] generic NULL must report is_null()");
        }
    }
}

#[cfg_attr(kani, kani::proof)]
#[cfg_attr(kani, kani::stub(std::fmt::format, fmt_stub))]
#[cfg_attr(kani, kani::unwind(10))]
pub fn k4_generic_date_bin() {
    use crate::myc::value::Value as V;
    let (y, mo, d, h, mi, s): (u16, u8, u8, u8, u8, u8) = (vk::any(), vk::any(), vk::any(), vk::any(), vk::any(), vk::any());
    let us: u32 = vk::any();
    vk::assume(y <= 9999 && us < 1_000_000);
    // every column type: a date-time can be carried by DATETIME / TIMESTAMP, by DATE only when it has no time of
    // day, and by nothing else
    let c = match any_col() {
        Some(c) => c,
        None => return,
    };
    let ct = c.coltype;
    let mut b = Buf::<16>::new();
    let r = noerr(V::Date(y, mo, d, h, mi, s, us).to_mysql_bin(&mut b, &c));
    if r.is_ok() {
        vk_cover!(us != 0, "cover: generic datetime with micros");
        if ct == ColumnType::MYSQL_TYPE_DATETIME || ct == ColumnType::MYSQL_TYPE_TIMESTAMP {
            vk_assert!(u16::from_le_bytes([b.b[1], b.b[2]]) == y && b.b[3] == mo && b.b[4] == d, "[C07.bin.generic] generic date part differs");
            vk_assert!(b.b[5] == h && b.b[6] == mi && b.b[7] == s, "[C07.bin.generic] generic time part differs");
            if us != 0 {
                vk_assert!(b.b[0] == 11 && u32::from_le_bytes([b.b[8], b.b[9], b.b[10], b.b[11]]) == us, "[C07.bin.generic] generic micros differ");
            } else {
                vk_assert!(b.b[0] == 7, "[C07.bin.generic] generic datetime length form");
            }
        } else if ct == ColumnType::MYSQL_TYPE_DATE {
            vk_assert!(h == 0 && mi == 0 && s == 0 && us == 0, "[C07.bin.generic] a date-time with a time of day was accepted for a DATE column (the client decodes a different value)");
            vk_assert!(b.n == 5 && b.b[0] == 4 && u16::from_le_bytes([b.b[1], b.b[2]]) == y && b.b[3] == mo && b.b[4] == d, "[C07.bin.generic] generic date for a DATE column differs");
        } else {
            vk_assert!(false, "[C07.bin.generic] a date-time was accepted for a column type that cannot carry it");
        }
    } else {
        vk_cover!(ct == ColumnType::MYSQL_TYPE_DATE, "cover: a generic date-time is refused for a DATE column");
        vk_assert!(b.n == 0, "[C07.bin.refuse] refused generic date left bytes behind");
    }
}
