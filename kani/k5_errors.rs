// K5 (errors): contracts on the error tables of src/errorcodes.rs. Finite domain, loop-free.
// The list of defined kinds (name = code) is regenerated from the snapshot's errorcodes.rs on every
// run by lib/kani_leg.py (hook `k5_table`) and included below; the harnesses shard the code space.
//
//@ group k5_errors
//@ inject src/errorcodes.rs
//@ pre-hook k5_table
//@ default-clause C13.codes.nopanic
//@ harness k5_codes_1000 tier=quick    kind=complete fn=src/errorcodes.rs::{ErrorKind::from(u16),ErrorKind::sqlstate}[1000..1100)
//@ harness k5_codes_1100 tier=quick    kind=complete fn=src/errorcodes.rs::{ErrorKind::from(u16),ErrorKind::sqlstate}[1100..1200)
//@ harness k5_codes_1200 tier=quick    kind=complete fn=src/errorcodes.rs::{ErrorKind::from(u16),ErrorKind::sqlstate}[1200..1300)
//@ harness k5_codes_1300 tier=quick    kind=complete fn=src/errorcodes.rs::{ErrorKind::from(u16),ErrorKind::sqlstate}[1300..1400)
//@ harness k5_codes_1400 tier=quick    kind=complete fn=src/errorcodes.rs::{ErrorKind::from(u16),ErrorKind::sqlstate}[1400..1500)
//@ harness k5_codes_1500 tier=quick    kind=complete fn=src/errorcodes.rs::{ErrorKind::from(u16),ErrorKind::sqlstate}[1500..1600)
//@ harness k5_codes_1600 tier=quick    kind=complete fn=src/errorcodes.rs::{ErrorKind::from(u16),ErrorKind::sqlstate}[1600..1700)
//@ harness k5_codes_1700 tier=quick    kind=complete fn=src/errorcodes.rs::{ErrorKind::from(u16),ErrorKind::sqlstate}[1700..1800)
//@ harness k5_codes_1800 tier=quick    kind=complete fn=src/errorcodes.rs::{ErrorKind::from(u16),ErrorKind::sqlstate}[1800..65536)
//@ harness k5_emitted    tier=quick    kind=complete fn=src/errorcodes.rs::ErrorKind::sqlstate(kinds-the-library-emits)
//@ clause C13.codes.roundtrip for every defined code d: ErrorKind::from(d) as u16 == d (discriminants are unique by the language, so kind -> code -> kind is lossless too)
//@ clause C13.codes.sqlstate  sqlstate() is five bytes from [0-9A-Z] for every defined kind
//@ clause C13.codes.denied    ER_ACCESS_DENIED_ERROR is 1045 / 28000 (the reply to a rejected login, C11)
//@ clause C13.codes.nopanic   From<u16> does not panic on a defined code; sqlstate() never panics
#![allow(unused_imports)]
use crate::errorcodes::ErrorKind;
use crate::verif_kani_common::*;

// pub fn is_defined(x: u16) -> bool  and  pub const N_DEFINED: usize  -- generated from the source
include!(env!("VERIF_K5_TABLE"));

pub fn check_code(x: u16) {
    let k = ErrorKind::from(x);
    vk_assert!(k as u16 == x, "[C13.codes.roundtrip] code -> kind -> code is not the identity");
    let s = k.sqlstate();
    let i: usize = vk::any();
    vk::assume(i < 5);
    let c = s[i];
    vk_assert!((c >= b'0' && c <= b'9') || (c >= b'A' && c <= b'Z'), "[C13.codes.sqlstate] SQLSTATE byte outside [0-9A-Z]");
}

macro_rules! k5_window {
    ($name:ident, $lo:expr, $hi:expr) => {
        #[cfg_attr(kani, kani::proof)]
        #[cfg_attr(kani, kani::stub(std::fmt::format, fmt_stub))]
        #[cfg_attr(kani, kani::unwind(4))]
        pub fn $name() {
            let x: u16 = vk::any();
            vk::assume(x as u32 >= $lo && (x as u32) < $hi);
            vk::assume(is_defined(x));
            vk_cover!(true, "cover: a defined code in this window");
            check_code(x);
        }
    };
}
k5_window!(k5_codes_1000, 1000, 1100);
k5_window!(k5_codes_1100, 1100, 1200);
k5_window!(k5_codes_1200, 1200, 1300);
k5_window!(k5_codes_1300, 1300, 1400);
k5_window!(k5_codes_1400, 1400, 1500);
k5_window!(k5_codes_1500, 1500, 1600);
k5_window!(k5_codes_1600, 1600, 1700);
k5_window!(k5_codes_1700, 1700, 1800);
k5_window!(k5_codes_1800, 1800, 65536);

#[cfg_attr(kani, kani::proof)]
#[cfg_attr(kani, kani::unwind(8))]
pub fn k5_emitted() {
    vk_assert!(ErrorKind::ER_ACCESS_DENIED_ERROR as u16 == 1045, "[C13.codes.denied] ER_ACCESS_DENIED_ERROR must be 1045");
    vk_assert!(ErrorKind::ER_ACCESS_DENIED_ERROR.sqlstate() == b"28000", "[C13.codes.denied] ER_ACCESS_DENIED_ERROR must carry SQLSTATE 28000");
    vk_assert!(is_defined(1045), "[C13.codes.denied] 1045 missing from the table");
}
