// K4 (integers): contracts on every integer `ToMysqlValue::to_mysql_bin` of src/value/encode.rs.
// One harness per Rust integer type; value, column type code and UNSIGNED flag are fully symbolic,
// the harness is loop-free up to the 8-iteration decoder => a pass is a complete proof (no bound).
//
//@ group k4_ints
//@ inject src/value/encode.rs
//@ default-clause C07.bin.nopanic
//@ harness c15_u8    tier=quick kind=complete fn=src/value/encode.rs::<u8>::to_mysql_bin
//@ harness c15_i8    tier=quick kind=complete fn=src/value/encode.rs::<i8>::to_mysql_bin
//@ harness c15_u16   tier=quick kind=complete fn=src/value/encode.rs::<u16>::to_mysql_bin
//@ harness c15_i16   tier=quick kind=complete fn=src/value/encode.rs::<i16>::to_mysql_bin
//@ harness c15_u32   tier=quick kind=complete fn=src/value/encode.rs::<u32>::to_mysql_bin
//@ harness c15_i32   tier=quick kind=complete fn=src/value/encode.rs::<i32>::to_mysql_bin
//@ harness c15_u64   tier=quick kind=complete fn=src/value/encode.rs::<u64>::to_mysql_bin
//@ harness c15_i64   tier=quick kind=complete fn=src/value/encode.rs::<i64>::to_mysql_bin
//@ harness c15_usize tier=quick kind=complete fn=src/value/encode.rs::<usize>::to_mysql_bin
//@ harness c15_isize tier=quick kind=complete fn=src/value/encode.rs::<isize>::to_mysql_bin
//@ harness c15_generic_int  tier=quick kind=complete fn=src/value/encode.rs::<myc::value::Value>::to_mysql_bin(Int)
//@ harness c15_generic_uint tier=quick kind=complete fn=src/value/encode.rs::<myc::value::Value>::to_mysql_bin(UInt)
//@ clause C15.exact         Ok => exactly width(coltype) bytes written and a conformant client decodes the same number
//@ clause C15.accept.fixed  range(coltype, signedness) contains the whole range of the Rust type => Ok
//@ clause C15.accept.ptr    usize/isize: range(coltype, signedness) contains the value => Ok
//@ clause C15.noninteger    a non-integer column type is refused
//@ clause C15.refuse.clean  Err => nothing was written
//@ clause C15.notnull       no integer value reports is_null() (the trait default must not be overridden into something value-dependent)
//@ clause C07.bin.nopanic   the encoder returns (Ok or Err) and never panics, for every column descriptor
#![allow(unused_imports)]
use crate::value::ToMysqlValue;
use crate::verif_kani_common::*;
use crate::{Column, ColumnFlags, ColumnType};

macro_rules! c15 {
    ($name:ident, $t:ty, $ptr:expr) => {
        #[cfg_attr(kani, kani::proof)]
        #[cfg_attr(kani, kani::stub(std::fmt::format, fmt_stub))]
        #[cfg_attr(kani, kani::unwind(10))]
        pub fn $name() {
            let v: $t = vk::any();
            let code: u8 = vk::any();
            // every combination of the 16 column flags: the client decides signedness from UNSIGNED_FLAG alone,
            // whatever else is set (ZEROFILL, NOT_NULL, ...)
            let bits: u16 = vk::any();
            let flags = ColumnFlags::from_bits_truncate(bits);
            let unsigned = flags.contains(ColumnFlags::UNSIGNED_FLAG);
            let ct = match ColumnType::try_from(code) {
                Ok(c) => c,
                Err(_) => return,
            };
            let c = col_flags(ct, flags);
            let mut b = Buf::<16>::new();
            let r = noerr(v.to_mysql_bin(&mut b, &c));
            vk_assert!(!v.is_null(), "[C15.notnull] an integer reports is_null(): the row writer would send NULL instead of it");
            if let Some((lo, hi, w)) = int_range(ct, unsigned) {
                vk_cover!(r.is_ok() && w == 8, "cover: accepted into LONGLONG");
                if r.is_ok() {
                    vk_assert!(b.n == w, "[C15.exact] accepted integer must occupy exactly the column's width");
                    vk_assert!(
                        int_decode(&b.b, w, unsigned) == v as i128,
                        "[C15.exact] client decodes a different number than was written"
                    );
                } else {
                    vk_assert!(b.n == 0, "[C15.refuse.clean] refused value left bytes in the row buffer");
                }
                if $ptr {
                    if (v as i128) >= lo && (v as i128) <= hi {
                        vk_assert!(r.is_ok(), "[C15.accept.ptr] pointer-sized value representable in the column was refused");
                    }
                } else if lo <= (<$t>::MIN as i128) && (<$t>::MAX as i128) <= hi {
                    vk_assert!(r.is_ok(), "[C15.accept.fixed] column range contains the whole Rust type but the write was refused");
                }
            } else {
                vk_cover!(true, "cover: non-integer column type reached");
                vk_assert!(r.is_err(), "[C15.noninteger] integer accepted for a non-integer column type");
                vk_assert!(b.n == 0, "[C15.refuse.clean] refused value left bytes in the row buffer");
            }
        }
    };
}

c15!(c15_u8, u8, false);
c15!(c15_i8, i8, false);
c15!(c15_u16, u16, false);
c15!(c15_i16, i16, false);
c15!(c15_u32, u32, false);
c15!(c15_i32, i32, false);
c15!(c15_u64, u64, false);
c15!(c15_i64, i64, false);
c15!(c15_usize, usize, true);
c15!(c15_isize, isize, true);

macro_rules! c15_generic {
    ($name:ident, $t:ty, $variant:ident) => {
        #[cfg_attr(kani, kani::proof)]
        #[cfg_attr(kani, kani::stub(std::fmt::format, fmt_stub))]
        #[cfg_attr(kani, kani::unwind(10))]
        pub fn $name() {
            let n: $t = vk::any();
            let code: u8 = vk::any();
            // every combination of the 16 column flags: the client decides signedness from UNSIGNED_FLAG alone,
            // whatever else is set (ZEROFILL, NOT_NULL, ...)
            let bits: u16 = vk::any();
            let flags = ColumnFlags::from_bits_truncate(bits);
            let unsigned = flags.contains(ColumnFlags::UNSIGNED_FLAG);
            let ct = match ColumnType::try_from(code) {
                Ok(c) => c,
                Err(_) => return,
            };
            let c = col_flags(ct, flags);
            let mut b = Buf::<16>::new();
            let v = crate::myc::value::Value::$variant(n);
            let r = noerr(v.to_mysql_bin(&mut b, &c));
            if let Some((_lo, _hi, w)) = int_range(ct, unsigned) {
                vk_cover!(r.is_ok(), "cover: generic value accepted");
                if r.is_ok() {
                    vk_assert!(b.n == w, "[C15.exact] accepted generic integer must occupy exactly the column's width");
                    vk_assert!(
                        int_decode(&b.b, w, unsigned) == n as i128,
                        "[C15.exact] client decodes a different number than the generic value written"
                    );
                } else {
                    vk_assert!(b.n == 0, "[C15.refuse.clean] refused generic value left bytes in the row buffer");
                }
            }
        }
    };
}
c15_generic!(c15_generic_int, i64, Int);
c15_generic!(c15_generic_uint, u64, UInt);
