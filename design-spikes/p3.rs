use vstd::prelude::*;
use std::collections::HashMap;
verus! {

#[verifier::external_body]
#[derive(Debug)]
pub struct IoError { _p: () }
pub mod io { pub type Result<T> = core::result::Result<T, super::IoError>; }

#[derive(Clone, Copy, PartialEq, Eq)]
pub struct ColumnType(pub u8);
impl ColumnType {
    #[verifier::external_body]
    pub fn try_from(b: u8) -> (r: Result<ColumnType, ()>)
        ensures r.is_ok() <==> valid_type_code(b), r.is_ok() ==> r.unwrap().0 == b
    { unimplemented!() }
}
pub uninterp spec fn valid_type_code(b: u8) -> bool;

pub enum ValueInner<'a> { NULL, Bytes(&'a [u8]), Other(Seq<u8>) }
pub struct Value<'a>(pub ValueInner<'a>);

// spec of one value's wire form: Some((value-bytes-consumed)) — seam to Kani K3
pub uninterp spec fn value_len(input: Seq<u8>, ct: u8, unsigned: bool) -> Option<int>;

impl<'a> Value<'a> {
    pub fn null() -> (r: Self) ensures r.0 is NULL { Value(ValueInner::NULL) }
    pub fn bytes(input: &'a [u8]) -> (r: Value<'a>) ensures r.0 == ValueInner::Bytes(input) { Value(ValueInner::Bytes(input)) }
    #[verifier::external_body]
    pub fn parse_from(input: &mut &'a [u8], ct: ColumnType, unsigned: bool) -> (r: io::Result<Self>)
        ensures
            r.is_ok() <==> value_len(old(input)@, ct.0, unsigned).is_some(),
            r.is_ok() ==> {
                let k = value_len(old(input)@, ct.0, unsigned).unwrap();
                0 <= k <= old(input)@.len() && final(input)@ == old(input)@.skip(k)
                && r.unwrap().0 == ValueInner::Other(old(input)@.take(k))
            },
    { unimplemented!() }
}

pub struct ParamValue<'a> { pub value: Value<'a>, pub coltype: ColumnType }

pub struct Params<'a> {
    pub params: u16,
    pub input: &'a [u8],
    pub nullmap: Option<&'a [u8]>,
    pub col: u16,
    pub long_data: &'a HashMap<u16, Vec<u8>>,
    pub bound_types: &'a mut Vec<(ColumnType, bool)>,
}

#[verifier::external_body]
fn vpanic() requires false { unimplemented!() }


pub struct PView { pub n: int, pub input: Seq<u8>, pub nullmap: Option<Seq<u8>>, pub col: int, pub bound: Seq<(u8, bool)>, pub long: Map<u16, Seq<u8>> }
pub enum Item { Null(u8), Long(u8, Seq<u8>), Inline(u8, Seq<u8>) }

pub open spec fn types_of(tm: Seq<u8>, n: int) -> Seq<(u8, bool)> {
    Seq::new(n as nat, |i: int| (tm[2 * i], (tm[2 * i + 1] & 128) != 0))
}
pub open spec fn hdr(v: PView) -> PView {
    if v.nullmap.is_some() { v } else {
        let l = (v.n + 7) / 8;
        let rest = v.input.skip(l);
        if rest.len() > 0 && rest[0] != 0 {
            PView { nullmap: Some(v.input.take(l)), input: rest.skip(1 + 2 * v.n), bound: types_of(rest.skip(1), v.n), ..v }
        } else if rest.len() > 0 {
            PView { nullmap: Some(v.input.take(l)), input: rest.skip(1), ..v }      // C16: flag byte consumed on the reuse path
        } else {
            PView { nullmap: Some(v.input.take(l)), input: rest, ..v }
        }
    }
}
pub open spec fn wf_hdr(v: PView) -> bool {
    let l = (v.n + 7) / 8;
    v.nullmap.is_none() ==> {
        &&& v.input.len() >= l
        &&& (v.input.len() > l && v.input[l] != 0 ==> v.input.len() >= l + 1 + 2 * v.n
                && forall|i: int| 0 <= i < v.n ==> valid_type_code(#[trigger] v.input[l + 1 + 2 * i]))
    }
}
pub open spec fn item(v: PView) -> Option<(PView, Item)> {
    let h = hdr(v);
    if h.col >= h.n { None } else {
        let (ct, uns) = h.bound[h.col];
        let nm = h.nullmap.unwrap();
        if (nm[h.col / 8] & (1u8 << ((h.col % 8) as u8))) != 0 { Some((PView { col: h.col + 1, ..h }, Item::Null(ct))) }
        else if h.long.contains_key(h.col as u16) { Some((PView { col: h.col + 1, ..h }, Item::Long(ct, h.long[h.col as u16]))) }
        else { let k = value_len(h.input, ct, uns).unwrap(); Some((PView { col: h.col + 1, input: h.input.skip(k), ..h }, Item::Inline(ct, h.input.take(k)))) }
    }
}
pub open spec fn wf_item(v: PView) -> bool {
    let h = hdr(v);
    h.col < h.n ==> {
        &&& h.bound.len() == h.n
        &&& h.nullmap.unwrap().len() == (h.n + 7) / 8
        &&& ((h.nullmap.unwrap()[h.col / 8] & (1u8 << ((h.col % 8) as u8))) == 0 && !h.long.contains_key(h.col as u16)
               ==> value_len(h.input, h.bound[h.col].0, h.bound[h.col].1).is_some())
    }
}
pub open spec fn item_matches(r: ParamValue<'_>, it: Item) -> bool {
    match it {
        Item::Null(ct) => r.coltype.0 == ct && r.value.0 is NULL,
        Item::Long(ct, b) => r.coltype.0 == ct && (r.value.0 matches ValueInner::Bytes(x) && x@ == b),
        Item::Inline(ct, b) => r.coltype.0 == ct && r.value.0 == ValueInner::Other(b),
    }
}

impl<'a> Params<'a> {
    pub open spec fn view(&self) -> PView {
        PView { n: self.params as int, input: self.input@, nullmap: match self.nullmap { Some(m) => Some(m@), None => None },
                col: self.col as int, bound: Seq::new(self.bound_types@.len(), |i: int| (self.bound_types@[i].0.0, self.bound_types@[i].1)),
                long: self.long_data@.map_values(|v: Vec<u8>| v@) }
    }
    fn next(&mut self) -> (r: Option<ParamValue<'a>>)
        requires wf_hdr(old(self).view()), wf_item(old(self).view()), old(self).col <= old(self).params
        ensures
            match item(old(self).view()) {
                None => r.is_none() && final(self).view() == hdr(old(self).view()),
                Some((v2, it)) => r.is_some() && item_matches(r.unwrap(), it) && final(self).view() =~= v2,
            }
    {
        if self.nullmap.is_none() {
            let nullmap_len = (self.params as usize + 7) / 8;
            let (nullmap, rest) = self.input.split_at(nullmap_len);
            self.nullmap = Some(nullmap);
            self.input = rest;

            let ghost rest0 = rest@;
            proof { assert(rest0 =~= old(self).input@.skip(((old(self).params as int) + 7) / 8)); }
            if !rest.is_empty() && rest[0] != 0x00 {
                let (typmap, rest) = rest[1..].split_at(2 * self.params as usize);
                self.bound_types.clear();
                let ghost l = ((old(self).params as int) + 7) / 8;
                proof {
                    assert(typmap@ =~= rest0.skip(1).take(2 * self.params as int));
                    assert(rest@ =~= rest0.skip(1).skip(2 * self.params as int));
                    assert(typmap@ =~= old(self).input@.skip(l).skip(1).take(2 * self.params as int));
                }
                for i in 0..self.params as usize
                    invariant
                        typmap@.len() == 2 * self.params,
                        self.params == old(self).params,
                        self.bound_types@.len() == i,
                        typmap@ == old(self).input@.skip(l).skip(1).take(2 * self.params as int),
                        l == ((old(self).params as int) + 7) / 8,
                        wf_hdr(old(self).view()), old(self).nullmap.is_none(),
                        old(self).input@.len() > l, old(self).input@[l] != 0,
                        forall|j: int| 0 <= j < i ==> self.bound_types@[j].0.0 == typmap@[2 * j] && self.bound_types@[j].1 == ((typmap@[2 * j + 1] & 128) != 0),
                {
                    proof {
                        assert(typmap@[2 * i as int] == old(self).input@[l + 1 + 2 * i as int]);
                    }
                    self.bound_types.push((
                        ColumnType::try_from(typmap[2 * i]).unwrap(),
                        (typmap[2 * i + 1] & 128) != 0,
                    ));
                }
                self.input = rest;
                proof {
                    let v0 = old(self).view();
                    assert(self.input@ =~= v0.input.skip(l).skip(1 + 2 * v0.n));
                    assert(self.view().bound =~= types_of(v0.input.skip(l).skip(1), v0.n));
                }
            } else if !rest.is_empty() {
                self.input = &rest[1..];
                proof { assert(self.input@ =~= old(self).view().input.skip(((old(self).params as int) + 7) / 8).skip(1)); }
            }
            proof {
                let v0 = old(self).view();
                let l0 = (v0.n + 7) / 8;
                assert(nullmap@ =~= v0.input.take(l0));
                assert(rest0 =~= v0.input.skip(l0));
                assert(self.view().long =~= hdr(v0).long);
                assert(self.view() =~= hdr(v0));
            }
        }
        proof { assert(self.view() =~= hdr(old(self).view())); }

        if self.col >= self.params {
            return None;
        }
        let pt = &self.bound_types[self.col as usize];

        if let Some(nullmap) = self.nullmap {
            let byte = self.col as usize / 8;
            if byte >= nullmap.len() {
                return None;
            }
            if (nullmap[byte] & 1u8 << (self.col % 8)) != 0 {
                self.col += 1;
                return Some(ParamValue {
                    value: Value::null(),
                    coltype: pt.0,
                });
            }
        } else {
            vpanic();
        }

        let ghost h = hdr(old(self).view());
        proof {
            assert(self.view() =~= h);
            assert(h.col as u16 == self.col);
            assert(h.long.contains_key(self.col) == self.long_data@.contains_key(self.col));
        }
        let v = if let Some(data) = self.long_data.get(&self.col) {
            proof { assert(h.long[self.col] == data@); }
            let sl = &data[..];
            proof { assert(sl@ =~= data@); }
            let vv = Value::bytes(sl);
            proof { assert(vv.0 matches ValueInner::Bytes(x) && x@ == data@); }
            vv
        } else {
            let ghost inp0 = self.input@;
            let vv = Value::parse_from(&mut self.input, pt.0, pt.1).unwrap();
            proof { assert(inp0 == h.input); assert(vv.0 == ValueInner::Other(h.input.take(value_len(h.input, pt.0.0, pt.1).unwrap()))); }
            vv
        };
        proof {
            let (v2, it) = item(old(self).view()).unwrap();
            if h.long.contains_key(self.col) {
                assert(it == Item::Long(pt.0.0, h.long[self.col]));
                assert(v.0 is Bytes);
            } else {
                assert(it == Item::Inline(pt.0.0, h.input.take(value_len(h.input, pt.0.0, pt.1).unwrap())));
            }
            assert(item_matches(ParamValue { value: v, coltype: pt.0 }, it));
        }
        self.col += 1;
        proof {
            let (v2, it) = item(old(self).view()).unwrap();
            assert(self.view().long =~= v2.long);
            assert(self.view().bound =~= v2.bound);
            assert(self.view() =~= v2);
        }
        Some(ParamValue {
            value: v,
            coltype: pt.0,
        })
    }
}
}
fn main() {}
