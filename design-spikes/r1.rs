use vstd::prelude::*;
verus! {

#[verifier::external_body]
pub struct IoError { _p: () }
pub type IoResult<T> = Result<T, IoError>;
#[verifier::external_body]
fn io_err() -> IoError { unimplemented!() }

pub struct PacketConn { pub out: Vec<u8>, pub pkts: Ghost<Seq<Seq<u8>>> }
impl PacketConn {
    fn write_u8(&mut self, b: u8) -> (r: IoResult<()>)
        ensures r.is_ok() ==> final(self).out@ == old(self).out@.push(b) && final(self).pkts == old(self).pkts
    { self.out.push(b); Ok(()) }
    fn write_all(&mut self, b: &[u8]) -> (r: IoResult<()>)
        ensures r.is_ok() ==> final(self).out@ == old(self).out@ + b@ && final(self).pkts == old(self).pkts
    { self.out.extend_from_slice(b); Ok(()) }
    fn end_packet(&mut self) -> (r: IoResult<()>)
        ensures r.is_ok() ==> final(self).out@.len() == 0 && final(self).pkts@ == old(self).pkts@.push(old(self).out@)
    { proof { self.pkts@ = self.pkts@.push(self.out@); } self.out.clear(); Ok(()) }
}

pub struct Column { pub not_null: bool, pub coltype: u8 }

pub trait ToMysqlValue {
    spec fn s_is_null(&self) -> bool;
    spec fn s_bin(&self, c: Column) -> Option<Seq<u8>>;
    fn is_null(&self) -> (r: bool) ensures r == self.s_is_null();
    fn to_mysql_bin(&self, w: &mut Vec<u8>, c: &Column) -> (r: IoResult<()>)
        ensures r.is_ok() ==> self.s_bin(*c).is_some() && final(w)@ == old(w)@ + self.s_bin(*c).unwrap();
}

pub struct QueryResultWriter<'a> { pub is_bin: bool, pub writer: &'a mut PacketConn }

pub struct RowWriter<'a> {
    pub result: Option<QueryResultWriter<'a>>,
    pub bitmap_len: usize,
    pub data: Vec<u8>,
    pub columns: &'a [Column],
    pub col: usize,
    pub finished: bool,
}

impl<'a> RowWriter<'a> {
    pub fn write_col<T: ToMysqlValue>(&mut self, v: T) -> (r: IoResult<()>)
        requires old(self).result.is_some(), old(self).col < usize::MAX
    {
        if self.columns.is_empty() {
            return Ok(());
        }

        if self.result.as_mut().unwrap().is_bin {
            if self.col == 0 {
                self.result.as_mut().unwrap().writer.write_u8(0x00)?;

                // leave space for nullmap
                self.data.resize(self.bitmap_len, 0);
            }
            let c = self.columns.get(self.col).ok_or_else(|| io_err())?;
            if v.is_null() {
                if c.not_null {
                    return Err(io_err());
                } else {
                    self.data[(self.col + 2) / 8] |= 1u8 << ((self.col + 2) % 8);
                }
            } else {
                v.to_mysql_bin(&mut self.data, c)?;
            }
        }
        self.col += 1;
        Ok(())
    }
}
}
fn main() {}
