use vstd::prelude::*;
verus! {
global size_of usize == 8;
pub open spec fn MAXP() -> int { 0xFF_FFFF }

pub open spec fn le24(n: int) -> Seq<u8> {
    seq![(n % 256) as u8, ((n / 256) % 256) as u8, ((n / 65536) % 256) as u8]
}
pub open spec fn le24_val(s: Seq<u8>) -> int {
    s[0] as int + 256 * (s[1] as int) + 65536 * (s[2] as int)
}
pub proof fn lemma_le24(n: int)
    requires 0 <= n < 0x100_0000
    ensures le24(n).len() == 3, le24_val(le24(n)) == n
{
}

pub open spec fn wrap1(s: u8) -> u8 { if s == 255 { 0u8 } else { (s + 1) as u8 } }

pub open spec fn frame(msg: Seq<u8>, s0: u8) -> Seq<u8>
    decreases msg.len()
{
    if msg.len() < MAXP() {
        le24(msg.len() as int) + seq![s0] + msg
    } else {
        le24(MAXP()) + seq![s0] + msg.take(MAXP()) + frame(msg.skip(MAXP()), wrap1(s0))
    }
}

pub open spec fn last_seq(len: int, s0: u8) -> u8
    decreases len
{
    if len < MAXP() { s0 } else { last_seq(len - MAXP(), wrap1(s0)) }
}

pub open spec fn unframe(s: Seq<u8>) -> Option<(int, u8, Seq<u8>)>
    decreases s.len()
{
    if s.len() < 4 { None } else {
        let l = le24_val(s);
        if s.len() < 4 + l { None }
        else if l < MAXP() { Some((4 + l, s[3], s.subrange(4, 4 + l))) }
        else {
            match unframe(s.skip(4 + l)) {
                None => None,
                Some((k, q, p)) => Some((4 + l + k, q, s.subrange(4, 4 + l) + p)),
            }
        }
    }
}

pub proof fn lemma_le24_val_bound(s: Seq<u8>)
    requires s.len() >= 3
    ensures 0 <= le24_val(s) <= MAXP()
{
}

pub proof fn lemma_roundtrip(m: Seq<u8>, s0: u8, t: Seq<u8>)
    ensures unframe(frame(m, s0) + t) == Some((frame(m, s0).len() as int, last_seq(m.len() as int, s0), m))
    decreases m.len()
{
    let f = frame(m, s0);
    let s = f + t;
    if m.len() < MAXP() {
        let l = m.len() as int;
        lemma_le24(l);
        assert(f.len() == 4 + l);
        assert(s[0] == le24(l)[0] && s[1] == le24(l)[1] && s[2] == le24(l)[2]);
        assert(le24_val(s) == l);
        assert(s[3] == s0);
        assert(s.subrange(4, 4 + l) =~= m);
    } else {
        let l = MAXP();
        lemma_le24(l);
        let rest = frame(m.skip(l), wrap1(s0));
        assert(f == le24(l) + seq![s0] + m.take(l) + rest);
        assert(s[0] == le24(l)[0] && s[1] == le24(l)[1] && s[2] == le24(l)[2]);
        assert(le24_val(s) == l);
        assert(s[3] == s0);
        assert(s.skip(4 + l) =~= rest + t);
        lemma_roundtrip(m.skip(l), wrap1(s0), t);
        assert(s.subrange(4, 4 + l) =~= m.take(l));
        assert(m.take(l) + m.skip(l) =~= m);
        assert(f.len() == 4 + l + rest.len());
    }
}

pub proof fn lemma_prefix_stable(a: Seq<u8>, t: Seq<u8>)
    requires unframe(a).is_some()
    ensures unframe(a + t) == unframe(a)
    decreases a.len()
{
    let s = a + t;
    let l = le24_val(a);
    assert(a.len() >= 4);
    assert(s[0] == a[0] && s[1] == a[1] && s[2] == a[2] && s[3] == a[3]);
    assert(le24_val(s) == l);
    lemma_le24_val_bound(a);
    if l < MAXP() {
        assert(s.subrange(4, 4 + l) =~= a.subrange(4, 4 + l));
    } else {
        assert(s.skip(4 + l) =~= a.skip(4 + l) + t);
        lemma_prefix_stable(a.skip(4 + l), t);
        assert(s.subrange(4, 4 + l) =~= a.subrange(4, 4 + l));
    }
}

pub proof fn lemma_unframe_consumed(s: Seq<u8>)
    requires unframe(s).is_some()
    ensures 4 <= unframe(s).unwrap().0 <= s.len(),
            unframe(s.take(unframe(s).unwrap().0)) == unframe(s)
    decreases s.len()
{
    let l = le24_val(s);
    lemma_le24_val_bound(s);
    let k = unframe(s).unwrap().0;
    let a = s.take(k);
    if l < MAXP() {
        assert(a[0] == s[0] && a[1] == s[1] && a[2] == s[2] && a[3] == s[3]);
        assert(a.subrange(4, 4 + l) =~= s.subrange(4, 4 + l));
    } else {
        lemma_unframe_consumed(s.skip(4 + l));
        let k2 = unframe(s.skip(4 + l)).unwrap().0;
        assert(k == 4 + l + k2);
        assert(a[0] == s[0] && a[1] == s[1] && a[2] == s[2] && a[3] == s[3]);
        assert(a.skip(4 + l) =~= s.skip(4 + l).take(k2));
        assert(a.subrange(4, 4 + l) =~= s.subrange(4, 4 + l));
    }
}


// abstract framing machine, defined from the property statement
pub struct A { pub wire: Seq<u8>, pub pend: Seq<u8>, pub seq: u8, pub cont: bool }

pub open spec fn emit(a: A) -> A {
    A { wire: a.wire + le24(a.pend.len() as int) + seq![a.seq] + a.pend, pend: Seq::empty(), seq: wrap1(a.seq), cont: a.pend.len() == MAXP() }
}

// append b (any length) to the open message
pub open spec fn step_write(a: A, b: Seq<u8>) -> A
    decreases b.len()
{
    let room = MAXP() - a.pend.len();
    if a.pend.len() >= MAXP() || b.len() == 0 { a }   // callers keep |pend| < MAXP
    else if b.len() < room { A { pend: a.pend + b, ..a } }
    else { step_write(emit(A { pend: a.pend + b.take(room), ..a }), b.skip(room)) }
}

pub open spec fn step_end(a: A) -> A {
    if a.pend.len() != 0 || a.cont { emit(a) } else { a }
}

// invariant tying the machine to `frame`
pub open spec fn full_frags(x: Seq<u8>, s: u8) -> Seq<u8>
    decreases x.len()
{
    if x.len() < MAXP() { Seq::empty() }
    else { le24(MAXP()) + seq![s] + x.take(MAXP()) + full_frags(x.skip(MAXP()), wrap1(s)) }
}
pub open spec fn nseq(s: u8, q: int) -> u8 decreases q { if q <= 0 { s } else { nseq(wrap1(s), q - 1) } }

pub open spec fn inv(a: A, wire0: Seq<u8>, s0: u8, m: Seq<u8>) -> bool {
    let q = m.len() as int / MAXP();
    &&& a.pend.len() < MAXP()
    &&& a.wire == wire0 + full_frags(m, s0)
    &&& a.pend == m.skip(q * MAXP())
    &&& a.seq == nseq(s0, q)
    &&& a.cont == (q >= 1)
}

pub proof fn lemma_full_frags_push(m: Seq<u8>, s0: u8, b: Seq<u8>)
    requires (m.len() as int % MAXP()) + b.len() == MAXP()
    ensures ({
        let q = m.len() as int / MAXP();
        full_frags(m + b, s0) == full_frags(m, s0) + le24(MAXP()) + seq![nseq(s0, q)] + (m.skip(q * MAXP()) + b)
    })
    decreases m.len()
{
    let q = m.len() as int / MAXP();
    if m.len() < MAXP() {
        assert(q == 0);
        assert(m.skip(0) =~= m);
        assert((m + b).take(MAXP()) =~= m + b);
        assert((m + b).skip(MAXP()).len() == 0);
        assert(full_frags((m + b).skip(MAXP()), wrap1(s0)) =~= Seq::<u8>::empty());
        assert(full_frags(m, s0) =~= Seq::<u8>::empty());
        assert(full_frags(m + b, s0) =~= le24(MAXP()) + seq![s0] + (m + b));
    } else {
        let m2 = m.skip(MAXP());
        assert(m2.len() as int % MAXP() == m.len() as int % MAXP()) by (nonlinear_arith)
            requires m2.len() == m.len() - MAXP(), m.len() >= MAXP(), MAXP() == 0xFFFFFF;
        assert(m2.len() as int / MAXP() == q - 1) by (nonlinear_arith)
            requires m2.len() == m.len() - MAXP(), m.len() >= MAXP(), q == m.len() as int / MAXP(), MAXP() == 0xFFFFFF;
        lemma_full_frags_push(m2, wrap1(s0), b);
        assert((m + b).take(MAXP()) =~= m.take(MAXP()));
        assert((m + b).skip(MAXP()) =~= m2 + b);
        assert(m2.skip((q - 1) * MAXP()) =~= m.skip(q * MAXP()));
        assert(nseq(wrap1(s0), q - 1) == nseq(s0, q));
        assert(full_frags(m + b, s0) =~= full_frags(m, s0) + le24(MAXP()) + seq![nseq(s0, q)] + (m.skip(q * MAXP()) + b));
    }
}

pub proof fn lemma_full_frags_small(m: Seq<u8>, s0: u8, b: Seq<u8>)
    requires (m.len() as int % MAXP()) + b.len() < MAXP()
    ensures full_frags(m + b, s0) == full_frags(m, s0),
            (m + b).len() as int / MAXP() == m.len() as int / MAXP(),
    decreases m.len()
{
    if m.len() < MAXP() {
        assert(m.len() as int % MAXP() == m.len()) by (nonlinear_arith) requires 0 <= m.len() < MAXP(), MAXP() == 0xFFFFFF;
        assert((m + b).len() as int / MAXP() == 0 && m.len() as int / MAXP() == 0) by (nonlinear_arith)
            requires 0 <= m.len(), (m+b).len() == m.len() + b.len(), m.len() + b.len() < MAXP(), MAXP() == 0xFFFFFF, b.len() >= 0;
    } else {
        let m2 = m.skip(MAXP());
        assert(m2.len() as int % MAXP() == m.len() as int % MAXP()) by (nonlinear_arith)
            requires m2.len() == m.len() - MAXP(), m.len() >= MAXP(), MAXP() == 0xFFFFFF;
        lemma_full_frags_small(m2, wrap1(s0), b);
        assert((m + b).take(MAXP()) =~= m.take(MAXP()));
        assert((m + b).skip(MAXP()) =~= m2 + b);
        assert((m + b).len() as int / MAXP() == m.len() as int / MAXP()) by (nonlinear_arith)
            requires (m2 + b).len() as int / MAXP() == m2.len() as int / MAXP(), m2.len() == m.len() - MAXP(), (m+b).len() == m.len() + b.len(), (m2+b).len() == m2.len() + b.len(), m.len() >= MAXP(), MAXP() == 0xFFFFFF;
    }
}

// one write step preserves the invariant with m extended by b
pub proof fn lemma_step_write(a: A, wire0: Seq<u8>, s0: u8, m: Seq<u8>, b: Seq<u8>)
    requires inv(a, wire0, s0, m)
    ensures inv(step_write(a, b), wire0, s0, m + b)
    decreases b.len()
{
    let q = m.len() as int / MAXP();
    let room = MAXP() - a.pend.len();
    assert(a.pend.len() == m.len() - q * MAXP());
    assert(a.pend.len() == m.len() as int % MAXP()) by (nonlinear_arith)
        requires a.pend.len() == m.len() - q * MAXP(), q == m.len() as int / MAXP(), MAXP() == 0xFFFFFF, m.len() >= 0;
    if b.len() == 0 {
        assert(m + b =~= m);
    } else if b.len() < room {
        lemma_full_frags_small(m, s0, b);
        assert((m + b).skip(q * MAXP()) =~= m.skip(q * MAXP()) + b);
    } else {
        let b1 = b.take(room);
        let a1 = emit(A { pend: a.pend + b1, ..a });
        lemma_full_frags_push(m, s0, b1);
        let m1 = m + b1;
        assert(m1.len() as int / MAXP() == q + 1 && m1.len() == (q + 1) * MAXP()) by (nonlinear_arith)
            requires m1.len() == m.len() + room, room == MAXP() - (m.len() - q * MAXP()), MAXP() == 0xFFFFFF, q >= 0;
        assert(m1.skip((q + 1) * MAXP()) =~= Seq::<u8>::empty());
        assert(nseq(s0, q + 1) == wrap1(nseq(s0, q))) by { lemma_nseq_succ(s0, q); }
        assert(a1.wire =~= wire0 + full_frags(m1, s0));
        assert(inv(a1, wire0, s0, m1));
        lemma_step_write(a1, wire0, s0, m1, b.skip(room));
        assert(m1 + b.skip(room) =~= m + b);
    }
}

pub proof fn lemma_nseq_succ(s: u8, q: int)
    requires q >= 0
    ensures nseq(s, q + 1) == wrap1(nseq(s, q))
    decreases q
{
    reveal_with_fuel(nseq, 3);
    if q > 0 { lemma_nseq_succ(wrap1(s), q - 1); assert(nseq(s, q + 1) == nseq(wrap1(s), q)); assert(nseq(s, q) == nseq(wrap1(s), q - 1)); }
}

// frame(m) = full fragments + final short packet
pub proof fn lemma_frame_split(m: Seq<u8>, s0: u8)
    ensures ({
        let q = m.len() as int / MAXP();
        let tail = m.skip(q * MAXP());
        frame(m, s0) == full_frags(m, s0) + le24(tail.len() as int) + seq![nseq(s0, q)] + tail
    })
    decreases m.len()
{
    let q = m.len() as int / MAXP();
    if m.len() < MAXP() {
        assert(q == 0) by (nonlinear_arith) requires 0 <= m.len() < MAXP(), q == m.len() as int / MAXP(), MAXP() == 0xFFFFFF;
        assert(m.skip(0) =~= m);
        assert(frame(m, s0) =~= full_frags(m, s0) + le24(m.len() as int) + seq![s0] + m);
    } else {
        let m2 = m.skip(MAXP());
        assert(m2.len() as int / MAXP() == q - 1) by (nonlinear_arith)
            requires m2.len() == m.len() - MAXP(), m.len() >= MAXP(), q == m.len() as int / MAXP(), MAXP() == 0xFFFFFF;
        lemma_frame_split(m2, wrap1(s0));
        assert(m2.skip((q - 1) * MAXP()) =~= m.skip(q * MAXP()));
        assert(nseq(wrap1(s0), q - 1) == nseq(s0, q));
        let tail = m.skip(q * MAXP());
        assert(frame(m, s0) =~= full_frags(m, s0) + le24(tail.len() as int) + seq![nseq(s0, q)] + tail);
    }
}

// C04.frame: any chunking of a non-empty message, then end_packet, puts exactly frame(m) on the wire
pub proof fn lemma_c04(a: A, wire0: Seq<u8>, s0: u8, m: Seq<u8>)
    requires inv(a, wire0, s0, m), m.len() > 0
    ensures step_end(a).wire == wire0 + frame(m, s0),
            step_end(a).pend.len() == 0, !step_end(a).cont,
            step_end(a).seq == nseq(s0, m.len() as int / MAXP() + 1)
{
    let q = m.len() as int / MAXP();
    lemma_frame_split(m, s0);
    lemma_nseq_succ(s0, q);
    assert(a.pend.len() != 0 || a.cont) by {
        if q == 0 {
            assert(m.skip(0) =~= m);
        }
    }
    assert(step_end(a).wire =~= wire0 + frame(m, s0));
}

pub const U24_MAX: usize = 16_777_215;

#[verifier::external_body]
#[derive(Debug)]
pub struct IoError { _p: () }
pub mod io { pub type Result<T> = core::result::Result<T, super::IoError>; }

pub trait Transport {
    spec fn wire(&self) -> Seq<u8>;
    spec fn flushed(&self) -> nat;
    spec fn writes(&self) -> Seq<Seq<u8>>;     // buffers handed to write_all since the last successful flush
    fn write_all(&mut self, buf: &[u8]) -> (r: io::Result<()>)
        ensures r.is_ok() ==> final(self).wire() == old(self).wire() + buf@ && final(self).flushed() == old(self).flushed()
                    && final(self).writes() == old(self).writes().push(buf@);
    fn flush(&mut self) -> (r: io::Result<()>)
        ensures final(self).wire() == old(self).wire(),
                r.is_ok() ==> final(self).flushed() == final(self).wire().len() && final(self).writes().len() == 0,
                r.is_err() ==> final(self).writes() == old(self).writes();
}

pub open spec fn r_is_emit(len: int, cont: bool) -> bool { len != 0 || cont }

// ---- packet-level view used by writers.rs / resultset.rs ----
pub open spec fn pview(ws: Seq<Seq<u8>>) -> (Seq<Seq<u8>>, Seq<u8>)
    decreases ws.len()
{
    if ws.len() == 0 { (Seq::empty(), Seq::empty()) } else {
        let (s, a) = pview(ws.drop_last());
        let payload = ws.last().skip(4);
        if payload.len() == MAXP() { (s, a + payload) } else { (s.push(a + payload), Seq::empty()) }
    }
}

pub struct LittleEndian;
impl LittleEndian {
    #[verifier::external_body]
    pub fn write_u24(buf: &mut [u8], n: u32)
        requires old(buf)@.len() == 3, n < 0x100_0000
        ensures final(buf)@ == le24(n as int)
    { unimplemented!() }
}
#[verifier::external_body]
fn vec_range_mut<'a>(v: &'a mut Vec<u8>, a: usize, b: usize) -> (r: &'a mut [u8])
    requires a <= b <= old(v).len()
    ensures r@ == old(v)@.subrange(a as int, b as int),
            final(r)@.len() == r@.len(),
            final(v)@ == old(v)@.take(a as int) + final(r)@ + old(v)@.skip(b as int),
{ &mut v[a..b] }

fn min(a: usize, b: usize) -> (r: usize) ensures r == if a <= b { a } else { b } { if a <= b { a } else { b } }

pub struct PacketConn<RW: Transport> {
    pub rw: RW,
    pub bytes: Vec<u8>,
    pub start: usize,
    pub remaining: usize,
    pub to_write: Vec<u8>,
    pub seq: u8,
    pub cont: bool,
}

impl<W: Transport> PacketConn<W> {
    pub open spec fn wr_wf(&self) -> bool {
        4 <= self.to_write.len() < U24_MAX + 4 && self.cont == (pview(self.rw.writes()).1.len() > 0)
    }
    pub open spec fn sent(&self) -> Seq<Seq<u8>> { pview(self.rw.writes()).0 }
    pub open spec fn open(&self) -> Seq<u8> { pview(self.rw.writes()).1 + self.to_write@.skip(4) }
    pub open spec fn abs(&self) -> A { A { wire: self.rw.wire(), pend: self.to_write@.skip(4), seq: self.seq, cont: self.cont } }

    fn maybe_end_packet(&mut self) -> (r: io::Result<()>)
        requires old(self).to_write.len() >= 4, old(self).to_write.len() <= U24_MAX + 4,
                 old(self).cont == (pview(old(self).rw.writes()).1.len() > 0)
        ensures r.is_ok() ==> final(self).wr_wf() && final(self).abs() == step_end(old(self).abs())
                   && final(self).rw.flushed() == old(self).rw.flushed()
                   && (old(self).to_write.len() < U24_MAX + 4 ==>
                         final(self).open().len() == 0
                         && final(self).sent() == (if old(self).open().len() > 0 { old(self).sent().push(old(self).open()) } else { old(self).sent() }))
                   && (old(self).to_write.len() == U24_MAX + 4 ==>
                         final(self).open() == old(self).open() && final(self).sent() == old(self).sent()),
    {
        let len = self.to_write.len() - 4;
        if len != 0 || self.cont {
            LittleEndian::write_u24(vec_range_mut(&mut self.to_write, 0, 3), len as u32);
            self.to_write[3] = self.seq;
            self.seq = self.seq.wrapping_add(1);
            self.cont = len == U24_MAX;

            self.rw.write_all(&self.to_write[..])?;
            proof {
                let p = old(self).to_write@.skip(4);
                assert(self.to_write@ =~= le24(len as int) + seq![old(self).seq] + p);
                assert(old(self).rw.wire() + self.to_write@ =~= old(self).rw.wire() + le24(p.len() as int) + seq![old(self).seq] + p);
            }
            proof {
                let ws0 = old(self).rw.writes();
                let ws1 = self.rw.writes();
                let p = old(self).to_write@.skip(4);
                assert(ws1.len() == ws0.len() + 1); assert(ws1.last() =~= self.to_write@); assert(ws1 =~= ws0.push(self.to_write@));
                assert(ws1.drop_last() =~= ws0);
                assert(ws1.last().skip(4) =~= p);
                reveal_with_fuel(pview, 2);
                let (s0, a0) = pview(ws0);
                assert(pview(ws1) == (if p.len() == MAXP() { (s0, a0 + p) } else { (s0.push(a0 + p), Seq::<u8>::empty()) }));
            }
            self.to_write.truncate(4); // back to just header
            proof { assert(self.to_write@.skip(4) =~= Seq::<u8>::empty()); }
        }
        proof {
            let p = old(self).to_write@.skip(4);
            let (s0, a0) = pview(old(self).rw.writes());
            if r_is_emit(old(self).to_write@.len() as int - 4, old(self).cont) {
                if p.len() == MAXP() {
                    assert(self.open() =~= a0 + p);
                } else {
                    assert(self.open() =~= Seq::<u8>::empty());
                    assert(old(self).open().len() > 0);
                }
            } else {
                assert(p.len() == 0 && a0.len() == 0);
                assert(old(self).open() =~= Seq::<u8>::empty());
                assert(self.open() =~= Seq::<u8>::empty());
            }
        }
        proof {
            let a0 = old(self).abs(); let a1 = self.abs(); let e = step_end(a0);
            assert(a1.wire =~= e.wire);
            assert(a1.pend =~= e.pend);
            assert(a1.seq == e.seq);
            assert(a1.cont == e.cont);
        }
        Ok(())
    }

    fn write(&mut self, buf: &[u8]) -> (r: io::Result<usize>)
        requires old(self).wr_wf()
        ensures r.is_ok() ==> final(self).wr_wf() && r.unwrap() <= buf@.len()
                   && (buf@.len() > 0 ==> r.unwrap() > 0)
                   && final(self).abs() == step_write(old(self).abs(), buf@.take(r.unwrap() as int))
                   && final(self).rw.flushed() == old(self).rw.flushed()
                   && final(self).sent() == old(self).sent()
                   && final(self).open() == old(self).open() + buf@.take(r.unwrap() as int),
    {
        let left = min(buf.len(), U24_MAX + 4 - self.to_write.len());
        self.to_write.extend_from_slice(&buf[..left]);
        let ghost a = old(self).abs();
        let ghost b = buf@.take(left as int);
        let ghost room = MAXP() - a.pend.len();
        proof {
            assert(self.to_write@.skip(4) =~= a.pend + b);
        }

        if self.to_write.len() == U24_MAX + 4 {
            let ghost mid = self.abs();
            self.maybe_end_packet()?;
            proof {
                reveal_with_fuel(step_write, 2);
                assert(b.len() == room);
                assert(b.take(room) =~= b);
                assert(b.skip(room) =~= Seq::<u8>::empty());
                assert(mid.pend.len() == MAXP());
                let e = emit(A { pend: a.pend + b.take(room), ..a });
                assert(step_write(a, b) == step_write(e, b.skip(room)));
                assert(step_write(e, b.skip(room)) == e);
                let a1 = self.abs();
                assert(a1.wire =~= e.wire);
                assert(a1.pend =~= e.pend);
                assert(a1.seq == e.seq && a1.cont == e.cont);
            }
        } else {
            proof {
                reveal_with_fuel(step_write, 2);
                let a1 = self.abs();
                let e = step_write(a, b);
                if b.len() == 0 { assert(a.pend + b =~= a.pend); }
                assert(a1.wire =~= e.wire);
                assert(a1.pend =~= e.pend);
                assert(a1.seq == e.seq && a1.cont == e.cont);
            }
        }
        Ok(left)
    }

    fn flush(&mut self) -> (r: io::Result<()>)
        requires old(self).wr_wf()
        ensures r.is_ok() ==> final(self).wr_wf() && final(self).abs() == step_end(old(self).abs())
                   && final(self).rw.flushed() == final(self).rw.wire().len(),
    {
        self.maybe_end_packet()?;
        self.rw.flush()
    }
}
}
fn main() {}
