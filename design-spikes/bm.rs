use vstd::prelude::*;
verus! {
global size_of usize == 8;

pub open spec fn bit_set(b: u8, k: int) -> bool { (b & (1u8 << (k as u8))) != 0 }

// spec of the NULL bitmap for the first `upto` columns of an n-column binary row
pub open spec fn bitmap_ok(bm: Seq<u8>, nulls: Seq<bool>, upto: int) -> bool {
    forall|pos: int| 0 <= pos < bm.len() * 8 ==>
        (#[trigger] bit_set(bm[pos / 8], pos % 8) <==> (2 <= pos < upto + 2 && nulls[pos - 2]))
}

proof fn lemma_or_bit(b: u8, k: u8, j: u8)
    requires k < 8, j < 8
    ensures ((b | (1u8 << k)) & (1u8 << j)) != 0 <==> (j == k || (b & (1u8 << j)) != 0)
{
    assert(((b | (1u8 << k)) & (1u8 << j)) != 0 <==> (j == k || (b & (1u8 << j)) != 0)) by (bit_vector)
        requires k < 8, j < 8;
}
proof fn lemma_zero_bit(j: u8) requires j < 8 ensures (0u8 & (1u8 << j)) == 0 {
    assert((0u8 & (1u8 << j)) == 0) by (bit_vector);
}

// the statement from RowWriter::write_col, in isolation
fn set_null(data: &mut Vec<u8>, col: usize, Ghost(nulls): Ghost<Seq<bool>>, Ghost(n): Ghost<int>)
    requires
        col < n, n < usize::MAX - 16,
        old(data).len() == (n + 7 + 2) / 8,
        nulls.len() == col,
        bitmap_ok(old(data)@, nulls, col as int),
    ensures
        final(data).len() == old(data).len(),
        bitmap_ok(final(data)@, nulls.push(true), col as int + 1),
{
    let ghost d0 = data@;
    data[(col + 2) / 8] |= 1u8 << ((col + 2) % 8);
    proof {
        let nulls2 = nulls.push(true);
        let idx = (col as int + 2) / 8;
        let k = ((col as int + 2) % 8) as u8;
        assert forall|pos: int| 0 <= pos < data@.len() * 8 implies
            (#[trigger] bit_set(data@[pos / 8], pos % 8) <==> (2 <= pos < col as int + 3 && nulls2[pos - 2])) by {
            let j = (pos % 8) as u8;
            assert(bit_set(d0[pos / 8], pos % 8) <==> (2 <= pos < col as int + 2 && nulls[pos - 2]));
            if pos / 8 == idx {
                lemma_or_bit(d0[idx], k, j);
                assert(data@[idx] == (d0[idx] | (1u8 << k)));
                if j == k { assert(pos == col as int + 2); }
            } else {
                assert(data@[pos / 8] == d0[pos / 8]);
                assert(pos != col as int + 2);
            }
            if 2 <= pos < col as int + 2 { assert(nulls2[pos - 2] == nulls[pos - 2]); }
        }
    }
}
}
fn main() {}
