use vstd::prelude::*;
verus! {

pub const U24_MAX: usize = 16_777_215;

// ---- environment stubs (assumed contracts) ----
#[verifier::external_body]
pub struct IoError { _p: () }
pub type IoResult<T> = Result<T, IoError>;

pub trait Transport {
    spec fn wire(&self) -> Seq<u8>;
    spec fn flushed(&self) -> nat;
    fn write_all(&mut self, buf: &[u8]) -> (r: IoResult<()>)
        ensures r.is_ok() ==> final(self).wire() == old(self).wire() + buf@ && final(self).flushed() == old(self).flushed(),
                r.is_err() ==> final(self).flushed() == old(self).flushed();
    fn flush(&mut self) -> (r: IoResult<()>)
        ensures final(self).wire() == old(self).wire(),
                r.is_ok() ==> final(self).flushed() == final(self).wire().len();
}

pub struct PacketConn<RW: Transport> {
    pub rw: RW,
    pub bytes: Vec<u8>,
    pub start: usize,
    pub remaining: usize,
    pub to_write: Vec<u8>,
    pub seq: u8,
}

fn min(a: usize, b: usize) -> (r: usize) ensures r == if a <= b { a } else { b } { if a <= b { a } else { b } }

#[verifier::external_body]
fn le_write_u24(buf: &mut Vec<u8>, v: u32)
    requires old(buf).len() >= 3, v < 0x1000000
    ensures final(buf)@ == old(buf)@.update(0, (v & 0xff) as u8).update(1, ((v >> 8) & 0xff) as u8).update(2, ((v >> 16) & 0xff) as u8)
{ unimplemented!() }

impl<W: Transport> PacketConn<W> {
    pub open spec fn wf(&self) -> bool { 4 <= self.to_write.len() <= U24_MAX }

    fn maybe_end_packet(&mut self) -> (r: IoResult<()>)
        requires old(self).wf()
        ensures r.is_ok() ==> final(self).wf() && final(self).to_write.len() == 4,
    {
        let len = self.to_write.len() - 4;
        if len != 0 {
            le_write_u24(&mut self.to_write, len as u32);
            self.to_write[3] = self.seq;
            self.seq = self.seq.wrapping_add(1);

            self.rw.write_all(&self.to_write[..])?;
            self.to_write.truncate(4); // back to just header
        }
        Ok(())
    }

    fn write(&mut self, buf: &[u8]) -> (r: IoResult<usize>)
        requires old(self).wf()
    {
        let left = min(buf.len(), U24_MAX - self.to_write.len());
        self.to_write.extend_from_slice(&buf[..left]);

        if self.to_write.len() == U24_MAX {
            self.maybe_end_packet()?;
        }
        Ok(left)
    }
}

} // verus!
fn main() {}
