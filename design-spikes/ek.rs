use vstd::prelude::*;
verus! {
#[allow(non_camel_case_types)]
#[derive(Clone, Copy, Eq, PartialEq)]
#[repr(u16)]
pub enum ErrorKind {
    ER_HASHCHK = 1000,
    ER_NISAMCHK = 1001,
    ER_NO = 1002,
    ER_DUP = 1062,
}
#[verifier::external_body]
fn vpanic() -> ! requires false { unimplemented!() }

pub open spec fn defined(x: u16) -> bool { x == 1000 || x == 1001 || x == 1002 || x == 1062 }

fn from(x: u16) -> (r: ErrorKind)
    requires defined(x)
    ensures r as u16 == x
{
    match x {
        1000_u16 => ErrorKind::ER_HASHCHK,
        1001_u16 => ErrorKind::ER_NISAMCHK,
        1002_u16 => ErrorKind::ER_NO,
        1062_u16 => ErrorKind::ER_DUP,
        _ => vpanic(),
    }
}
fn code(k: ErrorKind) -> (r: u16) ensures defined(r) { k as u16 }
}
fn main() {}
