use vstd::prelude::*;
verus! {

#[verifier::external_body]
pub struct IoError { _p: () }
pub mod io { pub type Result<T> = core::result::Result<T, super::IoError>; }

pub struct PacketConn { pub open: Vec<u8>, pub wire: Ghost<Seq<u8>>, pub flushed: Ghost<nat>, pub seq: u8 }
impl PacketConn {
    pub open spec fn all_flushed(&self) -> bool { self.open@.len() == 0 && self.flushed@ == self.wire@.len() }
    #[verifier::external_body]
    pub fn flush(&mut self) -> (r: io::Result<()>)
        ensures r.is_ok() ==> final(self).all_flushed()
    { unimplemented!() }
    #[verifier::external_body]
    pub fn set_seq(&mut self, s: u8) ensures final(self).seq == s, final(self).open == old(self).open, final(self).wire == old(self).wire, final(self).flushed == old(self).flushed
    { unimplemented!() }
    #[verifier::external_body]
    pub fn next(&mut self) -> (r: io::Result<Option<(u8, Vec<u8>)>>)
        requires old(self).all_flushed()
        ensures final(self).all_flushed()
    { unimplemented!() }
}

pub struct QueryResultWriter<'a> { pub is_bin: bool, pub writer: &'a mut PacketConn }
impl<'a> QueryResultWriter<'a> {
    pub fn new(writer: &'a mut PacketConn, is_bin: bool) -> (r: Self)
        ensures r.is_bin == is_bin, *r.writer == *old(writer), *final(r.writer) == *final(writer)
    { QueryResultWriter { is_bin, writer } }
}

pub enum Ev { Query(Seq<u8>), Close(u32) }

pub trait Shim {
    type Error;
    spec fn log(&self) -> Seq<Ev>;
    fn from_io(e: IoError) -> Self::Error;
    fn on_query(&mut self, q: &[u8], results: QueryResultWriter<'_>) -> (r: Result<(), Self::Error>)
        ensures final(self).log() == old(self).log().push(Ev::Query(q@));
    fn on_close(&mut self, stmt: u32)
        ensures final(self).log() == old(self).log().push(Ev::Close(stmt));
}

pub struct MysqlIntermediary<B: Shim> { pub shim: B, pub rw: PacketConn }

pub enum Command<'a> { Query(&'a [u8]), Close(u32), Ping, Quit }

#[verifier::external_body]
fn parse<'a>(p: &'a Vec<u8>) -> (r: Option<Command<'a>>) { unimplemented!() }

pub open spec fn ev_of(c: Command<'_>) -> Seq<Ev> {
    match c { Command::Query(q) => seq![Ev::Query(q@)], Command::Close(s) => seq![Ev::Close(s)], _ => seq![] }
}

impl<B: Shim> MysqlIntermediary<B> {
    fn run(&mut self) -> (r: Result<(), B::Error>)
        requires old(self).rw.all_flushed()
    {
        loop
            invariant self.rw.all_flushed()
            decreases 0nat
        {
            let nx = match self.rw.next() { Ok(x) => x, Err(e) => { return Err(B::from_io(e)); } };
            let (seq, packet) = match nx { Some(x) => x, None => { break; } };
            self.rw.set_seq(seq.wrapping_add(1));
            let cmd = match parse(&packet) { Some(c) => c, None => { return Err(B::from_io(io_err())); } };
            let ghost log0 = self.shim.log();
            match cmd {
                Command::Query(q) => {
                    let w = QueryResultWriter::new(&mut self.rw, false);
                    self.shim.on_query(q, w)?;
                }
                Command::Close(stmt) => {
                    self.shim.on_close(stmt);
                }
                Command::Ping => {}
                Command::Quit => { break; }
            }
            assert(self.shim.log() == log0 + ev_of(cmd));
            match self.rw.flush() { Ok(()) => {}, Err(e) => { return Err(B::from_io(e)); } };
        }
        Ok(())
    }
}
#[verifier::external_body]
fn io_err() -> IoError { unimplemented!() }
}
fn main() {}
