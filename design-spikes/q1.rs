use vstd::prelude::*;
verus! {
#[verifier::external_body]
pub struct IoError { _p: () }

pub trait Shim { type Error: From<IoError>; }

fn g() -> Result<u8, IoError> { Ok(1) }

fn f<B: Shim>() -> (r: Result<u8, B::Error>) {
    let x = g()?;
    Ok(x)
}
}
fn main() {}
