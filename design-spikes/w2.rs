use vstd::prelude::*;
verus! {
pub struct LittleEndian;
impl LittleEndian {
    #[verifier::external_body]
    pub fn write_u24(buf: &mut [u8], v: u32)
        requires old(buf).len() == 3
        ensures final(buf)@.len() == 3
    { unimplemented!() }
}

fn f(v: &mut Vec<u8>, len: usize)
    requires old(v).len() >= 4, len < 1000
{
    LittleEndian::write_u24(&mut v[0..3], len as u32);
}

fn g(v: &mut Vec<u8>, buf: &[u8], left: usize)
    requires left <= buf.len()
{
    v.extend(&buf[..left]);
}
}
fn main() {}
