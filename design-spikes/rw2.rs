use vstd::prelude::*;
verus! {
global size_of usize == 8;

#[verifier::external_body]
#[derive(Debug)]
pub struct IoError { _p: () }
pub mod io { pub type Result<T> = core::result::Result<T, super::IoError>; }
#[verifier::external_body]
fn io_err() -> IoError { unimplemented!() }

pub struct Column { pub not_null: bool, pub coltype: u8 }

// ---------- abstract PacketConn (contracts proved in unit U1) ----------
pub struct PacketConn { pub sent_: Ghost<Seq<Seq<u8>>>, pub open_: Ghost<Seq<u8>> }
impl PacketConn {
    pub open spec fn sent(&self) -> Seq<Seq<u8>> { self.sent_@ }
    pub open spec fn open(&self) -> Seq<u8> { self.open_@ }
    #[verifier::external_body]
    pub fn write_u8(&mut self, b: u8) -> (r: io::Result<()>)
        ensures r.is_ok() ==> final(self).open() == old(self).open().push(b) && final(self).sent() == old(self).sent()
    { unimplemented!() }
    #[verifier::external_body]
    pub fn write_all(&mut self, b: &[u8]) -> (r: io::Result<()>)
        ensures r.is_ok() ==> final(self).open() == old(self).open() + b@ && final(self).sent() == old(self).sent()
    { unimplemented!() }
    #[verifier::external_body]
    pub fn end_packet(&mut self) -> (r: io::Result<()>)
        ensures r.is_ok() ==> final(self).open().len() == 0
            && final(self).sent() == (if old(self).open().len() > 0 { old(self).sent().push(old(self).open()) } else { old(self).sent() })
    { unimplemented!() }
}

// ---------- value trait (contracts proved by Kani K4 / unit U6) ----------
pub trait Sink { spec fn appended(&self, old: &Self, bytes: Seq<u8>) -> bool; }
impl Sink for PacketConn { open spec fn appended(&self, old: &Self, bytes: Seq<u8>) -> bool { self.open() == old.open() + bytes && self.sent() == old.sent() } }
impl Sink for Vec<u8> { open spec fn appended(&self, old: &Self, bytes: Seq<u8>) -> bool { self@ == old@ + bytes } }

pub trait ToMysqlValue {
    spec fn s_is_null(&self) -> bool;
    spec fn s_text(&self) -> Seq<u8>;
    spec fn s_bin(&self, c: Column) -> Option<Seq<u8>>;
    fn is_null(&self) -> (r: bool) ensures r == self.s_is_null();
    fn to_mysql_text<W: Sink>(&self, w: &mut W) -> (r: io::Result<()>)
        ensures r.is_ok() ==> final(w).appended(old(w), self.s_text()) && self.s_text().len() > 0;
    fn to_mysql_bin<W: Sink>(&self, w: &mut W, c: &Column) -> (r: io::Result<()>)
        requires !self.s_is_null()
        ensures r.is_ok() ==> self.s_bin(*c).is_some() && final(w).appended(old(w), self.s_bin(*c).unwrap());
}

// ---------- row rendering spec ----------
pub struct Cell { pub null: bool, pub text: Seq<u8>, pub bin: Seq<u8> }

pub open spec fn text_cells(cells: Seq<Cell>) -> Seq<u8> decreases cells.len() {
    if cells.len() == 0 { Seq::empty() } else { text_cells(cells.drop_last()) + cells.last().text }
}
pub open spec fn bin_cells(cells: Seq<Cell>) -> Seq<u8> decreases cells.len() {
    if cells.len() == 0 { Seq::empty() } else { bin_cells(cells.drop_last()) + (if cells.last().null { Seq::empty() } else { cells.last().bin }) }
}
pub open spec fn bit_set(b: u8, k: int) -> bool { (b & (1u8 << (k as u8))) != 0 }
pub open spec fn bitmap_ok(bm: Seq<u8>, cells: Seq<Cell>) -> bool {
    forall|pos: int| 0 <= pos < bm.len() * 8 ==>
        (#[trigger] bit_set(bm[pos / 8], pos % 8) <==> (2 <= pos < cells.len() + 2 && cells[pos - 2].null))
}
pub open spec fn bm_len(n: int) -> int { (n + 7 + 2) / 8 }
// a complete binary row: header 0, bitmap, values
pub open spec fn is_bin_row(r: Seq<u8>, cells: Seq<Cell>, n: int) -> bool {
    &&& cells.len() == n
    &&& r.len() >= 1 + bm_len(n) && r[0] == 0
    &&& bitmap_ok(r.subrange(1, 1 + bm_len(n)), cells)
    &&& r.skip(1 + bm_len(n)) == bin_cells(cells)
}
pub open spec fn is_text_row(r: Seq<u8>, cells: Seq<Cell>, n: int) -> bool { cells.len() == n && r == text_cells(cells) }

pub uninterp spec fn hdr(cols: Seq<Column>) -> Seq<Seq<u8>>;

// ---------- writers under verification ----------
pub struct QueryResultWriter<'a> { pub is_bin: bool, pub writer: &'a mut PacketConn, pub last_end: Option<u8> }

pub struct RowWriter<'a> {
    pub result: Option<QueryResultWriter<'a>>,
    pub bitmap_len: usize,
    pub data: Vec<u8>,
    pub columns: &'a [Column],
    pub col: usize,
    pub finished: bool,
}

pub struct G { pub pre: Seq<Seq<u8>>, pub rows: Seq<Seq<u8>>, pub rowcells: Seq<Seq<Cell>>, pub cells: Seq<Cell> }

proof fn lemma_or_bit(b: u8, k: u8, j: u8)
    requires k < 8, j < 8
    ensures ((b | (1u8 << k)) & (1u8 << j)) != 0 <==> (j == k || (b & (1u8 << j)) != 0)
{
    assert(((b | (1u8 << k)) & (1u8 << j)) != 0 <==> (j == k || (b & (1u8 << j)) != 0)) by (bit_vector)
        requires k < 8, j < 8;
}
proof fn lemma_zero_bit(j: u8) requires j < 8 ensures (0u8 & (1u8 << j)) == 0 {
    assert((0u8 & (1u8 << j)) == 0) by (bit_vector);
}

impl<'a> RowWriter<'a> {
    pub open spec fn n(&self) -> int { self.columns@.len() as int }
    pub open spec fn conn(&self) -> &PacketConn { self.result.unwrap().writer }
    pub open spec fn is_bin(&self) -> bool { self.result.unwrap().is_bin }

    // typestate invariant for a non-empty column list
    pub open spec fn inv(&self, g: G) -> bool {
        &&& self.result.is_some() && self.n() > 0 && self.n() < usize::MAX - 16
        &&& self.bitmap_len == bm_len(self.n())
        &&& self.col == g.cells.len() && self.col <= self.n()
        &&& self.conn().sent() == g.pre + hdr(self.columns@) + g.rows
        &&& g.rows.len() == g.rowcells.len()
        &&& forall|i: int| 0 <= i < g.rows.len() ==> (if self.is_bin() { is_bin_row(#[trigger] g.rows[i], g.rowcells[i], self.n()) } else { is_text_row(g.rows[i], g.rowcells[i], self.n()) })
        &&& if self.is_bin() {
                &&& (forall|i: int| 0 <= i < g.cells.len() ==> (#[trigger] g.cells[i]).null ==> !self.columns@[i].not_null)
                &&& if self.col == 0 { self.conn().open().len() == 0 && self.data@.len() == 0 }
                    else {
                        &&& self.conn().open() == seq![0u8]
                        &&& self.data@.len() >= self.bitmap_len
                        &&& bitmap_ok(self.data@.take(self.bitmap_len as int), g.cells)
                        &&& self.data@.skip(self.bitmap_len as int) == bin_cells(g.cells)
                    }
            } else {
                &&& self.conn().open() == text_cells(g.cells)
                &&& forall|i: int| 0 <= i < g.cells.len() ==> (#[trigger] g.cells[i]).text.len() > 0
            }
    }

    pub fn write_col<T>(&mut self, v: T) -> (r: io::Result<()>)
    where
        T: ToMysqlValue,
        requires exists|g: G| old(self).inv(g), old(self).col < old(self).n() || !old(self).is_bin(),
        ensures forall|g: G| #[trigger] old(self).inv(g) ==> (r.is_ok() ==> {
            let c = old(self).columns@[old(self).col as int];
            let cell = Cell { null: v.s_is_null(), text: v.s_text(), bin: if v.s_is_null() || !old(self).is_bin() { Seq::empty() } else { v.s_bin(c).unwrap() } };
            old(self).col < old(self).n() ==> final(self).inv(G { cells: g.cells.push(cell), ..g })
        }),
    {
        if self.columns.is_empty() {
            return Ok(());
        }

        if self.result.as_mut().unwrap().is_bin {
            if self.col == 0 {
                self.result.as_mut().unwrap().writer.write_u8(0x00)?;

                // leave space for nullmap
                self.data.resize(self.bitmap_len, 0);
                proof {
                    let bm = self.data@.take(self.bitmap_len as int);
                    assert forall|pos: int| 0 <= pos < bm.len() * 8 implies !(#[trigger] bit_set(bm[pos / 8], pos % 8)) by {
                        lemma_zero_bit((pos % 8) as u8);
                    }
                    assert(self.data@.skip(self.bitmap_len as int) =~= Seq::<u8>::empty());
                }
            }

            let c = self.columns.get(self.col).ok_or_else(|| {
                io_err()
            })?;
            if v.is_null() {
                if c.not_null {
                    return Err(io_err());
                } else {
                    let ghost d0 = self.data@;
                    self.data[(self.col + 2) / 8] |= 1u8 << ((self.col + 2) % 8);
                    proof {
                        let bl = self.bitmap_len as int;
                        let idx = (self.col as int + 2) / 8;
                        let k = ((self.col as int + 2) % 8) as u8;
                        assert(idx < bl);
                        assert(self.data@.skip(bl) =~= d0.skip(bl));
                        assert forall|g: G| #[trigger] old(self).inv(g) implies
                            bitmap_ok(self.data@.take(bl), g.cells.push(Cell { null: true, text: v.s_text(), bin: Seq::empty() })) by {
                            let cells2 = g.cells.push(Cell { null: true, text: v.s_text(), bin: Seq::empty() });
                            let bm0 = d0.take(bl); let bm1 = self.data@.take(bl);
                            assert(bitmap_ok(bm0, g.cells));
                            assert forall|pos: int| 0 <= pos < bm1.len() * 8 implies
                                (#[trigger] bit_set(bm1[pos / 8], pos % 8) <==> (2 <= pos < cells2.len() + 2 && cells2[pos - 2].null)) by {
                                let j = (pos % 8) as u8;
                                assert(bit_set(bm0[pos / 8], pos % 8) <==> (2 <= pos < g.cells.len() + 2 && g.cells[pos - 2].null));
                                if pos / 8 == idx {
                                    lemma_or_bit(d0[idx], k, j);
                                    assert(bm1[idx] == (d0[idx] | (1u8 << k)));
                                    if j == k { assert(pos == self.col as int + 2); }
                                } else {
                                    assert(bm1[pos / 8] == bm0[pos / 8]);
                                    assert(pos != self.col as int + 2);
                                }
                                if 2 <= pos < self.col as int + 2 { assert(cells2[pos - 2] == g.cells[pos - 2]); }
                            }
                        }
                    }
                }
            } else {
                let ghost d0 = self.data@;
                v.to_mysql_bin(&mut self.data, c)?;
                proof {
                    let bl = self.bitmap_len as int;
                    let e = v.s_bin(*c).unwrap();
                    assert(self.data@.take(bl) =~= d0.take(bl));
                    assert(self.data@.skip(bl) =~= d0.skip(bl) + e);
                }
            }
        } else {
            v.to_mysql_text(self.result.as_mut().unwrap().writer)?;
        }
        self.col += 1;
        proof {
            assert forall|g: G| #[trigger] old(self).inv(g) && old(self).col < old(self).n() implies ({
                let c = old(self).columns@[old(self).col as int];
                let cell = Cell { null: v.s_is_null(), text: v.s_text(), bin: if v.s_is_null() || !old(self).is_bin() { Seq::empty() } else { v.s_bin(c).unwrap() } };
                self.inv(G { cells: g.cells.push(cell), ..g })
            }) by {
                let c = old(self).columns@[old(self).col as int];
                let cell = Cell { null: v.s_is_null(), text: v.s_text(), bin: if v.s_is_null() || !old(self).is_bin() { Seq::empty() } else { v.s_bin(c).unwrap() } };
                let cells2 = g.cells.push(cell);
                assert(cells2.drop_last() =~= g.cells);
                assert(cells2.last() == cell);
                let g2 = G { cells: cells2, ..g };
                if old(self).is_bin() {
                    let bl = self.bitmap_len as int;
                    assert(bin_cells(cells2) == bin_cells(g.cells) + (if cell.null { Seq::<u8>::empty() } else { cell.bin }));
                    if cell.null {
                        assert(bin_cells(cells2) =~= bin_cells(g.cells));
                    } else {
                        // bitmap unchanged, new cell not null
                        let bm = self.data@.take(bl);
                        assert forall|pos: int| 0 <= pos < bm.len() * 8 implies
                            (#[trigger] bit_set(bm[pos / 8], pos % 8) <==> (2 <= pos < cells2.len() + 2 && cells2[pos - 2].null)) by {
                            if 2 <= pos < g.cells.len() + 2 { assert(cells2[pos - 2] == g.cells[pos - 2]); }
                        }
                    }
                    assert forall|i: int| 0 <= i < cells2.len() && (#[trigger] cells2[i]).null implies !self.columns@[i].not_null by {
                        if i < g.cells.len() { assert(cells2[i] == g.cells[i]); }
                    }
                    assert(self.result.is_some() && self.n() > 0);
                    assert(self.col == cells2.len() && self.col <= self.n());
                    assert(self.conn().sent() == g.pre + hdr(self.columns@) + g.rows);
                    assert(self.conn().open() == seq![0u8]);
                    assert(self.data@.len() >= self.bitmap_len);
                    assert(bitmap_ok(self.data@.take(bl), cells2));
                    assert(self.data@.skip(bl) == bin_cells(cells2));
                    assert(self.inv(g2));
                } else {
                    assert(text_cells(cells2) == text_cells(g.cells) + cell.text);
                    assert forall|i: int| 0 <= i < cells2.len() implies (#[trigger] cells2[i]).text.len() > 0 by {
                        if i < g.cells.len() { assert(cells2[i] == g.cells[i]); }
                    }
                    assert(self.inv(g2));
                }
            }
        }
        Ok(())
    }

    pub fn end_row(&mut self) -> (r: io::Result<()>)
        requires exists|g: G| old(self).inv(g),
        ensures
            old(self).col != old(self).n() ==> r.is_err() && final(self).conn().sent() == old(self).conn().sent(),
            forall|g: G| #[trigger] old(self).inv(g) ==> (r.is_ok() ==> ({
                let row = if old(self).is_bin() { seq![0u8] + old(self).data@ } else { text_cells(g.cells) };
                final(self).inv(G { rows: g.rows.push(row), rowcells: g.rowcells.push(g.cells), cells: Seq::empty(), ..g })
            })),
    {
        if self.columns.is_empty() {
            self.col += 1;
            return Ok(());
        }

        if self.col != self.columns.len() {
            return Err(io_err());
        }

        if self.result.as_mut().unwrap().is_bin {
            self.result
                .as_mut()
                .unwrap()
                .writer
                .write_all(&self.data[..])?;
            self.data.clear();
        }
        let ghost o1 = self.conn().open();
        let ghost s1 = self.conn().sent();
        proof {
            assert(s1 == old(self).conn().sent());
            assert forall|g: G| #[trigger] old(self).inv(g) implies
                o1 == (if old(self).is_bin() { seq![0u8] + old(self).data@ } else { text_cells(g.cells) }) && o1.len() > 0 by {
                if old(self).is_bin() { } else {
                    let n = self.n();
                    assert(g.cells.len() == n && n > 0);
                    assert(text_cells(g.cells) == text_cells(g.cells.drop_last()) + g.cells.last().text);
                    assert(g.cells[n - 1].text.len() > 0);
                }
            }
        }
        self.result.as_mut().unwrap().writer.end_packet()?;
        proof { assert(o1.len() > 0 ==> self.conn().sent() == s1.push(o1)); }
        self.col = 0;
        proof {
            assert forall|g: G| #[trigger] old(self).inv(g) implies ({
                let row = if old(self).is_bin() { seq![0u8] + old(self).data@ } else { text_cells(g.cells) };
                self.inv(G { rows: g.rows.push(row), rowcells: g.rowcells.push(g.cells), cells: Seq::empty(), ..g })
            }) by {
                let row = if old(self).is_bin() { seq![0u8] + old(self).data@ } else { text_cells(g.cells) };
                let g2 = G { rows: g.rows.push(row), rowcells: g.rowcells.push(g.cells), cells: Seq::empty(), ..g };
                let n = self.n();
                assert(old(self).conn().open().len() > 0) by {
                    if old(self).is_bin() { } else {
                        assert(g.cells.len() == n && n > 0);
                        assert(text_cells(g.cells) == text_cells(g.cells.drop_last()) + g.cells.last().text);
                        assert(g.cells[n - 1].text.len() > 0);
                    }
                }
                let s0 = old(self).conn().sent();
                let opn = if old(self).is_bin() { seq![0u8] + old(self).data@ } else { old(self).conn().open() };
                assert(opn == row);
                assert(o1 == row);
                assert(self.conn().sent() == s0.push(row));
                assert((g.pre + hdr(self.columns@) + g.rows).push(row) =~= g.pre + hdr(self.columns@) + g.rows.push(row));
                assert(self.conn().sent() =~= g.pre + hdr(self.columns@) + g2.rows);
                assert forall|i: int| 0 <= i < g2.rows.len() implies (if self.is_bin() { is_bin_row(#[trigger] g2.rows[i], g2.rowcells[i], n) } else { is_text_row(g2.rows[i], g2.rowcells[i], n) }) by {
                    if i < g.rows.len() {
                        assert(g2.rows[i] == g.rows[i] && g2.rowcells[i] == g.rowcells[i]);
                    } else {
                        if self.is_bin() {
                            let bl = bm_len(n);
                            let d = old(self).data@;
                            assert(row.subrange(1, 1 + bl) =~= d.take(bl));
                            assert(row.skip(1 + bl) =~= d.skip(bl));
                        }
                    }
                }
                assert(self.result.is_some() && self.n() > 0 && self.bitmap_len == bm_len(self.n()));
                assert(self.col == g2.cells.len() && self.col <= self.n());
                assert(g2.rows.len() == g2.rowcells.len());
                assert(self.conn().open().len() == 0);
                if self.is_bin() { assert(self.data@.len() == 0); } else { assert(text_cells(g2.cells) =~= Seq::<u8>::empty()); }
                assert(self.n() < usize::MAX - 16);
                assert(self.conn().sent() == g2.pre + hdr(self.columns@) + g2.rows);
                assert(forall|i: int| 0 <= i < g2.rows.len() ==> (if self.is_bin() { is_bin_row(#[trigger] g2.rows[i], g2.rowcells[i], self.n()) } else { is_text_row(g2.rows[i], g2.rowcells[i], self.n()) }));
                assert(self.is_bin() ==> (forall|i: int| 0 <= i < g2.cells.len() ==> (#[trigger] g2.cells[i]).null ==> !self.columns@[i].not_null));
                assert(!self.is_bin() ==> self.conn().open() == text_cells(g2.cells));
                assert(!self.is_bin() ==> (forall|i: int| 0 <= i < g2.cells.len() ==> (#[trigger] g2.cells[i]).text.len() > 0));
                assert(self.inv(g2));
            }
        }

        Ok(())
    }
}
}
fn main() {}
