use vstd::prelude::*;
use std::collections::HashMap;
verus! {
#[verifier::external_body]
#[derive(Debug)]
pub struct IoError { _p: () }

pub struct StatementData { pub long_data: HashMap<u16, Vec<u8>>, pub bound_types: Vec<(u8, bool)>, pub params: u16 }

pub struct ParamParser<'a> {
    pub params: u16,
    pub bytes: &'a [u8],
    pub long_data: &'a HashMap<u16, Vec<u8>>,
    pub bound_types: &'a mut Vec<(u8, bool)>,
}
impl<'a> ParamParser<'a> {
    pub fn new(input: &'a [u8], stmt: &'a mut StatementData) -> (r: Self)
        ensures r.params == old(stmt).params, r.bytes@ == input@, r.long_data@ == old(stmt).long_data@,
                *r.bound_types == old(stmt).bound_types,
                final(stmt).bound_types == *final(r.bound_types),
                final(stmt).long_data@ == old(stmt).long_data@,
                final(stmt).params == old(stmt).params,
    {
        ParamParser {
            params: stmt.params,
            bytes: input,
            long_data: &stmt.long_data,
            bound_types: &mut stmt.bound_types,
        }
    }
}

#[verifier::external_body]
fn hm_get_mut<'a>(m: &'a mut HashMap<u32, StatementData>, k: u32) -> (r: Option<&'a mut StatementData>)
    ensures
        r.is_some() == old(m)@.contains_key(k),
        r.is_some() ==> *r.unwrap() == old(m)@[k] && final(m)@ == old(m)@.insert(k, *final(r.unwrap())),
        r.is_none() ==> final(m)@ == old(m)@,
{ m.get_mut(&k) }

#[verifier::external_body]
fn io_err() -> IoError { unimplemented!() }

#[verifier::external_body]
fn on_execute(stmt: u32, params: ParamParser<'_>) -> (r: Result<(), IoError>)
    ensures final(params.bound_types)@.len() >= 0
{ unimplemented!() }

fn exec(stmts: &mut HashMap<u32, StatementData>, stmt: u32, params: &[u8]) -> (r: Result<(), IoError>)
    ensures
        r.is_ok() ==> old(stmts)@.contains_key(stmt) && final(stmts)@.contains_key(stmt)
            && final(stmts)@[stmt].long_data@.len() == 0
            && final(stmts)@[stmt].params == old(stmts)@[stmt].params,
        !old(stmts)@.contains_key(stmt) ==> r.is_err() && final(stmts)@ == old(stmts)@,
        forall|j: u32| j != stmt && old(stmts)@.contains_key(j) ==> final(stmts)@.contains_key(j) && #[trigger] final(stmts)@[j] == old(stmts)@[j],
{
    let state = hm_get_mut(stmts, stmt).ok_or_else(|| io_err())?;
    {
        let params = ParamParser::new(params, state);
        on_execute(stmt, params)?;
    }
    state.long_data.clear();
    Ok(())
}
}
fn main() {}
