use vstd::prelude::*;
verus! {
#[verifier::external_body]
pub struct IoError { _p: () }
pub mod io { pub type Result<T> = core::result::Result<T, super::IoError>; }

pub struct LittleEndian;
pub struct StatusFlags { pub b: u16 }
impl StatusFlags { pub fn bits(&self) -> (r: u16) ensures r == self.b { self.b } pub fn empty() -> (r: StatusFlags) ensures r.b == 0 { StatusFlags { b: 0 } } }
pub struct ColumnFlags { pub b: u16 }
impl ColumnFlags { pub fn bits(&self) -> (r: u16) ensures r == self.b { self.b } }
pub struct Column { pub table: String, pub column: String, pub coltype: u8, pub colflags: ColumnFlags }

pub open spec fn le16(x: u16) -> Seq<u8> { seq![(x & 0xff) as u8, (x >> 8) as u8] }
pub uninterp spec fn lenenc_int(x: u64) -> Seq<u8>;
pub uninterp spec fn str_bytes(s: &String) -> Seq<u8>;
pub assume_specification [ String::as_bytes ] (s: &String) -> (r: &[u8]) ensures r@ == str_bytes(s);
pub open spec fn lenenc_str(b: Seq<u8>) -> Seq<u8> { lenenc_int(b.len() as u64) + b }

pub struct PacketConn { pub open: Vec<u8>, pub sent: Ghost<Seq<Seq<u8>>> }
impl PacketConn {
    #[verifier::external_body]
    pub fn write_all(&mut self, b: &[u8]) -> (r: io::Result<()>)
        ensures r.is_ok() ==> final(self).open@ == old(self).open@ + b@ && final(self).sent == old(self).sent
    { unimplemented!() }
    #[verifier::external_body]
    pub fn write_u8(&mut self, b: u8) -> (r: io::Result<()>)
        ensures r.is_ok() ==> final(self).open@ == old(self).open@ + seq![b] && final(self).sent == old(self).sent
    { unimplemented!() }
    #[verifier::external_body]
    pub fn write_u16<E>(&mut self, v: u16) -> (r: io::Result<()>)
        ensures r.is_ok() ==> final(self).open@ == old(self).open@ + le16(v) && final(self).sent == old(self).sent
    { unimplemented!() }
    #[verifier::external_body]
    pub fn write_lenenc_int(&mut self, v: u64) -> (r: io::Result<u64>)
        ensures r.is_ok() ==> final(self).open@ == old(self).open@ + lenenc_int(v) && final(self).sent == old(self).sent
    { unimplemented!() }
    #[verifier::external_body]
    pub fn write_lenenc_str(&mut self, b: &[u8]) -> (r: io::Result<u64>)
        ensures r.is_ok() ==> final(self).open@ == old(self).open@ + lenenc_str(b@) && final(self).sent == old(self).sent
    { unimplemented!() }
    #[verifier::external_body]
    pub fn end_packet(&mut self) -> (r: io::Result<()>)
        ensures r.is_ok() ==> final(self).open@.len() == 0 && final(self).sent@ == (if old(self).open@.len() > 0 { old(self).sent@.push(old(self).open@) } else { old(self).sent@ })
    { unimplemented!() }
}

pub open spec fn ok_payload(rows: u64, id: u64, s: u16) -> Seq<u8> {
    seq![0u8] + lenenc_int(rows) + lenenc_int(id) + le16(s) + seq![0u8, 0u8]
}

pub(crate) fn write_ok_packet(
    w: &mut PacketConn,
    rows: u64,
    last_insert_id: u64,
    s: StatusFlags,
) -> (r: io::Result<()>)
    requires old(w).open@.len() == 0
    ensures r.is_ok() ==> final(w).open@.len() == 0 && final(w).sent@ == old(w).sent@.push(ok_payload(rows, last_insert_id, s.b))
{
    w.write_u8(0x00)?; // OK packet type
    w.write_lenenc_int(rows)?;
    w.write_lenenc_int(last_insert_id)?;
    w.write_u16::<LittleEndian>(s.bits())?;
    w.write_all(&[0x00, 0x00])?; // no warnings
    w.end_packet()
}

pub(crate) fn coldefs<'a>(i: core::slice::Iter<'a, Column>, w: &mut PacketConn) -> (r: io::Result<()>)
{
    let mut empty = true;
    for c in i {
        w.write_lenenc_str(b"def")?;
        w.write_lenenc_str(c.table.as_bytes())?;
        w.write_u8(c.coltype as u8)?;
        w.write_u16::<LittleEndian>(c.colflags.bits())?;
        w.end_packet()?;
        empty = false;
    }
    Ok(())
}
}
fn main() {}
