use vstd::prelude::*;
verus! {
pub struct Column { pub t: u8 }

fn a(s: &[Column], out: &mut Vec<u8>)
    ensures final(out)@.len() == old(out)@.len() + s@.len()
{
    let ghost n0 = out@.len();
    for c in it: s.iter()
        invariant out@.len() == n0 + it.index@
    {
        out.push(c.t);
    }
}

fn b<'a>(i: core::slice::Iter<'a, Column>, out: &mut Vec<u8>)
{
    for c in it: i
    {
        out.push(c.t);
    }
}
}
fn main() {}
