use vstd::prelude::*;
verus! {
pub struct LittleEndian;
impl LittleEndian {
    #[verifier::external_body]
    pub fn write_u24(buf: &mut [u8], v: u32)
        requires old(buf).len() == 3
        ensures final(buf)@.len() == 3
    { unimplemented!() }
}

fn f(v: &mut Vec<u8>, len: usize)
    requires old(v).len() >= 4, len < 1000
    ensures final(v).len() == old(v).len()
{
    LittleEndian::write_u24(&mut v[0..3], len as u32);
}

fn h(v: &mut Vec<u8>, start: usize)
    requires start <= old(v).len()
{
    v.drain(0..start);
}
}
fn main() {}
