use vstd::prelude::*;
verus! {

pub open spec fn MAXP() -> int { 0xFF_FFFF }

pub open spec fn le24(n: int) -> Seq<u8> {
    seq![(n % 256) as u8, ((n / 256) % 256) as u8, ((n / 65536) % 256) as u8]
}
pub open spec fn le24_val(s: Seq<u8>) -> int {
    s[0] as int + 256 * (s[1] as int) + 65536 * (s[2] as int)
}
pub proof fn lemma_le24(n: int)
    requires 0 <= n < 0x100_0000
    ensures le24(n).len() == 3, le24_val(le24(n)) == n
{
}

pub open spec fn wrap1(s: u8) -> u8 { if s == 255 { 0u8 } else { (s + 1) as u8 } }

pub open spec fn frame(msg: Seq<u8>, s0: u8) -> Seq<u8>
    decreases msg.len()
{
    if msg.len() < MAXP() {
        le24(msg.len() as int) + seq![s0] + msg
    } else {
        le24(MAXP()) + seq![s0] + msg.take(MAXP()) + frame(msg.skip(MAXP()), wrap1(s0))
    }
}

pub open spec fn last_seq(len: int, s0: u8) -> u8
    decreases len
{
    if len < MAXP() { s0 } else { last_seq(len - MAXP(), wrap1(s0)) }
}

pub open spec fn unframe(s: Seq<u8>) -> Option<(int, u8, Seq<u8>)>
    decreases s.len()
{
    if s.len() < 4 { None } else {
        let l = le24_val(s);
        if s.len() < 4 + l { None }
        else if l < MAXP() { Some((4 + l, s[3], s.subrange(4, 4 + l))) }
        else {
            match unframe(s.skip(4 + l)) {
                None => None,
                Some((k, q, p)) => Some((4 + l + k, q, s.subrange(4, 4 + l) + p)),
            }
        }
    }
}

pub proof fn lemma_le24_val_bound(s: Seq<u8>)
    requires s.len() >= 3
    ensures 0 <= le24_val(s) <= MAXP()
{
}

pub proof fn lemma_roundtrip(m: Seq<u8>, s0: u8, t: Seq<u8>)
    ensures unframe(frame(m, s0) + t) == Some((frame(m, s0).len() as int, last_seq(m.len() as int, s0), m))
    decreases m.len()
{
    let f = frame(m, s0);
    let s = f + t;
    if m.len() < MAXP() {
        let l = m.len() as int;
        lemma_le24(l);
        assert(f.len() == 4 + l);
        assert(s[0] == le24(l)[0] && s[1] == le24(l)[1] && s[2] == le24(l)[2]);
        assert(le24_val(s) == l);
        assert(s[3] == s0);
        assert(s.subrange(4, 4 + l) =~= m);
    } else {
        let l = MAXP();
        lemma_le24(l);
        let rest = frame(m.skip(l), wrap1(s0));
        assert(f == le24(l) + seq![s0] + m.take(l) + rest);
        assert(s[0] == le24(l)[0] && s[1] == le24(l)[1] && s[2] == le24(l)[2]);
        assert(le24_val(s) == l);
        assert(s[3] == s0);
        assert(s.skip(4 + l) =~= rest + t);
        lemma_roundtrip(m.skip(l), wrap1(s0), t);
        assert(s.subrange(4, 4 + l) =~= m.take(l));
        assert(m.take(l) + m.skip(l) =~= m);
        assert(f.len() == 4 + l + rest.len());
    }
}

pub proof fn lemma_prefix_stable(a: Seq<u8>, t: Seq<u8>)
    requires unframe(a).is_some()
    ensures unframe(a + t) == unframe(a)
    decreases a.len()
{
    let s = a + t;
    let l = le24_val(a);
    assert(a.len() >= 4);
    assert(s[0] == a[0] && s[1] == a[1] && s[2] == a[2] && s[3] == a[3]);
    assert(le24_val(s) == l);
    lemma_le24_val_bound(a);
    if l < MAXP() {
        assert(s.subrange(4, 4 + l) =~= a.subrange(4, 4 + l));
    } else {
        assert(s.skip(4 + l) =~= a.skip(4 + l) + t);
        lemma_prefix_stable(a.skip(4 + l), t);
        assert(s.subrange(4, 4 + l) =~= a.subrange(4, 4 + l));
    }
}

pub proof fn lemma_unframe_consumed(s: Seq<u8>)
    requires unframe(s).is_some()
    ensures 4 <= unframe(s).unwrap().0 <= s.len(),
            unframe(s.take(unframe(s).unwrap().0)) == unframe(s)
    decreases s.len()
{
    let l = le24_val(s);
    lemma_le24_val_bound(s);
    let k = unframe(s).unwrap().0;
    let a = s.take(k);
    if l < MAXP() {
        assert(a[0] == s[0] && a[1] == s[1] && a[2] == s[2] && a[3] == s[3]);
        assert(a.subrange(4, 4 + l) =~= s.subrange(4, 4 + l));
    } else {
        lemma_unframe_consumed(s.skip(4 + l));
        let k2 = unframe(s.skip(4 + l)).unwrap().0;
        assert(k == 4 + l + k2);
        assert(a[0] == s[0] && a[1] == s[1] && a[2] == s[2] && a[3] == s[3]);
        assert(a.skip(4 + l) =~= s.skip(4 + l).take(k2));
        assert(a.subrange(4, 4 + l) =~= s.subrange(4, 4 + l));
    }
}

}
fn main() {}
