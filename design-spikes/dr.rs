use vstd::prelude::*;
verus! {
#[verifier::external_body]
#[derive(Debug)]
pub struct IoError { _p: () }
pub mod io { pub type Result<T> = core::result::Result<T, super::IoError>; }

pub uninterp spec fn lenenc_int(x: u64) -> Seq<u8>;
pub open spec fn le16(x: u16) -> Seq<u8> { seq![(x & 0xff) as u8, (x >> 8) as u8] }
pub open spec fn ok_payload(rows: u64, id: u64, s: u16) -> Seq<u8> { seq![0u8] + lenenc_int(rows) + lenenc_int(id) + le16(s) + seq![0u8, 0u8] }
pub open spec fn eof_payload(s: u16) -> Seq<u8> { seq![0xFEu8, 0u8, 0u8] + le16(s) }
pub open spec fn MORE() -> u16 { 8 }

pub struct StatusFlags { pub b: u16 }
impl StatusFlags {
    pub fn empty() -> (r: StatusFlags) ensures r.b == 0 { StatusFlags { b: 0 } }
    pub fn set_more(&mut self, v: bool) ensures final(self).b == (if v { 8u16 } else { 0u16 }) , old(self).b == 0 ==> true { self.b = if v { 8 } else { 0 }; }
}

// abstract PacketConn as seen by resultset.rs (contracts proved in unit U1)
pub struct PacketConn { pub sent_: Ghost<Seq<Seq<u8>>>, pub open_: Ghost<Seq<u8>> }
impl PacketConn {
    pub open spec fn sent(&self) -> Seq<Seq<u8>> { self.sent_@ }
    pub open spec fn open(&self) -> Seq<u8> { self.open_@ }
}
#[verifier::external_body]
pub fn write_ok_packet(w: &mut PacketConn, rows: u64, last_insert_id: u64, s: StatusFlags) -> (r: io::Result<()>)
    requires old(w).open().len() == 0
    ensures r.is_ok() ==> final(w).open().len() == 0 && final(w).sent() == old(w).sent().push(ok_payload(rows, last_insert_id, s.b)),
{ unimplemented!() }
#[verifier::external_body]
pub fn write_eof_packet(w: &mut PacketConn, s: StatusFlags) -> (r: io::Result<()>)
    requires old(w).open().len() == 0
    ensures r.is_ok() ==> final(w).open().len() == 0 && final(w).sent() == old(w).sent().push(eof_payload(s.b)),
{ unimplemented!() }

// ghost trace of result units
pub enum Unit { Ok { rows: u64, id: u64 }, Rs { body: Seq<Seq<u8>> } }   // body = header packets + row packets, without terminator
pub open spec fn render_unit(u: Unit, more: bool) -> Seq<Seq<u8>> {
    let st = if more { 8u16 } else { 0u16 };
    match u {
        Unit::Ok { rows, id } => seq![ok_payload(rows, id, st)],
        Unit::Rs { body } => body.push(eof_payload(st)),
    }
}
pub open spec fn render_more(t: Seq<Unit>) -> Seq<Seq<u8>> decreases t.len() {
    if t.len() == 0 { Seq::empty() } else { render_more(t.drop_last()) + render_unit(t.last(), true) }
}
pub open spec fn render_response(t: Seq<Unit>) -> Seq<Seq<u8>> {
    render_more(t.drop_last()) + render_unit(t.last(), false)
}
pub open spec fn body_of(u: Unit) -> Seq<Seq<u8>> { match u { Unit::Ok { .. } => Seq::empty(), Unit::Rs { body } => body } }

pub enum Finalizer { Ok { rows: u64, last_insert_id: u64 }, Eof }

pub struct QueryResultWriter<'a> { pub is_bin: bool, pub writer: &'a mut PacketConn, pub last_end: Option<Finalizer> }

impl<'a> QueryResultWriter<'a> {
    // typestate: sent == base + render_more(t) + body(pending unit)
    pub open spec fn q(&self, base: Seq<Seq<u8>>, t: Seq<Unit>, p: Option<Unit>) -> bool {
        &&& self.writer.open().len() == 0
        &&& self.writer.sent() == base + render_more(t) + (match p { Some(u) => body_of(u), None => Seq::empty() })
        &&& match (self.last_end, p) {
            (None, None) => true,
            (Some(Finalizer::Ok { rows, last_insert_id }), Some(Unit::Ok { rows: r2, id })) => rows == r2 && last_insert_id == id,
            (Some(Finalizer::Eof), Some(Unit::Rs { .. })) => true,
            _ => false,
        }
    }

    fn finalize(&mut self, more_exists: bool) -> (r: io::Result<()>)
        requires exists|base: Seq<Seq<u8>>, t: Seq<Unit>, p: Option<Unit>| old(self).q(base, t, p)
        ensures forall|base: Seq<Seq<u8>>, t: Seq<Unit>, p: Option<Unit>| #[trigger] old(self).q(base, t, p) ==> (r.is_ok() ==>
            final(self).last_end.is_none() && final(self).writer.open().len() == 0
            && final(self).writer.sent() == base + render_more(t) + (match p { Some(u) => render_unit(u, more_exists), None => Seq::empty() })),
    {
        let mut status = StatusFlags::empty();
        if more_exists {
            status.set_more(true);
        }
        match self.last_end.take() {
            None => Ok(()),
            Some(Finalizer::Ok {
                rows,
                last_insert_id,
            }) => {
                let r = write_ok_packet(self.writer, rows, last_insert_id, status);
                proof { if r.is_ok() { assert forall|base: Seq<Seq<u8>>, t: Seq<Unit>, p: Option<Unit>| #[trigger] old(self).q(base, t, p) implies
                            self.writer.sent() == base + render_more(t) + render_unit(p.unwrap(), more_exists) by {
                            assert(base + render_more(t) + Seq::<Seq<u8>>::empty() =~= base + render_more(t));
                            assert((base + render_more(t)).push(ok_payload(rows, last_insert_id, status.b)) =~= base + render_more(t) + seq![ok_payload(rows, last_insert_id, status.b)]);
                        } } }
                r
            }
            Some(Finalizer::Eof) => {
                let r = write_eof_packet(self.writer, status);
                proof { if r.is_ok() { assert forall|base: Seq<Seq<u8>>, t: Seq<Unit>, p: Option<Unit>| #[trigger] old(self).q(base, t, p) implies
                            self.writer.sent() == base + render_more(t) + render_unit(p.unwrap(), more_exists) by {
                            let body = body_of(p.unwrap());
                            assert((base + render_more(t) + body).push(eof_payload(status.b)) =~= base + render_more(t) + body.push(eof_payload(status.b)));
                        } } }
                r
            }
        }
    }

    pub fn complete_one(&mut self, rows: u64, last_insert_id: u64) -> (r: io::Result<()>)
        requires exists|base: Seq<Seq<u8>>, t: Seq<Unit>, p: Option<Unit>| old(self).q(base, t, p)
        ensures forall|base: Seq<Seq<u8>>, t: Seq<Unit>, p: Option<Unit>| #[trigger] old(self).q(base, t, p) ==> (r.is_ok() ==>
            final(self).q(base, match p { Some(u) => t.push(u), None => t }, Some(Unit::Ok { rows, id: last_insert_id })))
    {
        self.finalize(true)?;
        self.last_end = Some(Finalizer::Ok {
            rows,
            last_insert_id,
        });
        proof {
            assert forall|base: Seq<Seq<u8>>, t: Seq<Unit>, p: Option<Unit>| #[trigger] old(self).q(base, t, p) implies
                self.q(base, match p { Some(u) => t.push(u), None => t }, Some(Unit::Ok { rows, id: last_insert_id })) by {
                match p {
                    Some(u) => { assert(t.push(u).drop_last() =~= t); assert(base + render_more(t) + render_unit(u, true) =~= base + (render_more(t) + render_unit(u, true))); }
                    None => {}
                }
                assert(self.writer.sent() + Seq::<Seq<u8>>::empty() =~= self.writer.sent());
            }
        }
        Ok(())
    }

    // R1: `impl Drop for QueryResultWriter` body as an inherent fn
    fn drop_body(&mut self)
        requires exists|base: Seq<Seq<u8>>, t: Seq<Unit>, p: Option<Unit>| old(self).q(base, t, p)
    {
        self.finalize(false).unwrap();
    }
}
}
fn main() {}
