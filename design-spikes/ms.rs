use vstd::prelude::*;
verus! {
pub struct P { pub n: u64 }
pub struct W<'a> { pub writer: &'a mut P, pub last: Option<u64> }
impl<'a> W<'a> {
    fn fin(&mut self) -> (r: Result<(), ()>)
        ensures r.is_ok() ==> final(self).last.is_none() && final(self).writer.n == old(self).writer.n
    { self.last = None; Ok(()) }

    pub fn complete_one(self, rows: u64) -> (r: Result<Self, ()>)
        ensures r.is_ok() ==> r.unwrap().last == Some(rows)
    {
        let mut self_ = self;
        self_.fin()?;
        self_.last = Some(rows);
        Ok(self_)
    }
}
}
fn main() {}
