use vstd::prelude::*;
verus! {
pub open spec fn MAXP() -> int { 0xFF_FFFF }

pub open spec fn le24(n: int) -> Seq<u8> {
    seq![(n % 256) as u8, ((n / 256) % 256) as u8, ((n / 65536) % 256) as u8]
}
pub open spec fn le24_val(s: Seq<u8>) -> int {
    s[0] as int + 256 * (s[1] as int) + 65536 * (s[2] as int)
}
pub proof fn lemma_le24(n: int)
    requires 0 <= n < 0x100_0000
    ensures le24(n).len() == 3, le24_val(le24(n)) == n
{
}

pub open spec fn wrap1(s: u8) -> u8 { if s == 255 { 0u8 } else { (s + 1) as u8 } }

pub open spec fn frame(msg: Seq<u8>, s0: u8) -> Seq<u8>
    decreases msg.len()
{
    if msg.len() < MAXP() {
        le24(msg.len() as int) + seq![s0] + msg
    } else {
        le24(MAXP()) + seq![s0] + msg.take(MAXP()) + frame(msg.skip(MAXP()), wrap1(s0))
    }
}

pub open spec fn last_seq(len: int, s0: u8) -> u8
    decreases len
{
    if len < MAXP() { s0 } else { last_seq(len - MAXP(), wrap1(s0)) }
}

pub open spec fn unframe(s: Seq<u8>) -> Option<(int, u8, Seq<u8>)>
    decreases s.len()
{
    if s.len() < 4 { None } else {
        let l = le24_val(s);
        if s.len() < 4 + l { None }
        else if l < MAXP() { Some((4 + l, s[3], s.subrange(4, 4 + l))) }
        else {
            match unframe(s.skip(4 + l)) {
                None => None,
                Some((k, q, p)) => Some((4 + l + k, q, s.subrange(4, 4 + l) + p)),
            }
        }
    }
}

pub proof fn lemma_le24_val_bound(s: Seq<u8>)
    requires s.len() >= 3
    ensures 0 <= le24_val(s) <= MAXP()
{
}

pub proof fn lemma_roundtrip(m: Seq<u8>, s0: u8, t: Seq<u8>)
    ensures unframe(frame(m, s0) + t) == Some((frame(m, s0).len() as int, last_seq(m.len() as int, s0), m))
    decreases m.len()
{
    let f = frame(m, s0);
    let s = f + t;
    if m.len() < MAXP() {
        let l = m.len() as int;
        lemma_le24(l);
        assert(f.len() == 4 + l);
        assert(s[0] == le24(l)[0] && s[1] == le24(l)[1] && s[2] == le24(l)[2]);
        assert(le24_val(s) == l);
        assert(s[3] == s0);
        assert(s.subrange(4, 4 + l) =~= m);
    } else {
        let l = MAXP();
        lemma_le24(l);
        let rest = frame(m.skip(l), wrap1(s0));
        assert(f == le24(l) + seq![s0] + m.take(l) + rest);
        assert(s[0] == le24(l)[0] && s[1] == le24(l)[1] && s[2] == le24(l)[2]);
        assert(le24_val(s) == l);
        assert(s[3] == s0);
        assert(s.skip(4 + l) =~= rest + t);
        lemma_roundtrip(m.skip(l), wrap1(s0), t);
        assert(s.subrange(4, 4 + l) =~= m.take(l));
        assert(m.take(l) + m.skip(l) =~= m);
        assert(f.len() == 4 + l + rest.len());
    }
}

pub proof fn lemma_prefix_stable(a: Seq<u8>, t: Seq<u8>)
    requires unframe(a).is_some()
    ensures unframe(a + t) == unframe(a)
    decreases a.len()
{
    let s = a + t;
    let l = le24_val(a);
    assert(a.len() >= 4);
    assert(s[0] == a[0] && s[1] == a[1] && s[2] == a[2] && s[3] == a[3]);
    assert(le24_val(s) == l);
    lemma_le24_val_bound(a);
    if l < MAXP() {
        assert(s.subrange(4, 4 + l) =~= a.subrange(4, 4 + l));
    } else {
        assert(s.skip(4 + l) =~= a.skip(4 + l) + t);
        lemma_prefix_stable(a.skip(4 + l), t);
        assert(s.subrange(4, 4 + l) =~= a.subrange(4, 4 + l));
    }
}

pub proof fn lemma_unframe_consumed(s: Seq<u8>)
    requires unframe(s).is_some()
    ensures 4 <= unframe(s).unwrap().0 <= s.len(),
            unframe(s.take(unframe(s).unwrap().0)) == unframe(s)
    decreases s.len()
{
    let l = le24_val(s);
    lemma_le24_val_bound(s);
    let k = unframe(s).unwrap().0;
    let a = s.take(k);
    if l < MAXP() {
        assert(a[0] == s[0] && a[1] == s[1] && a[2] == s[2] && a[3] == s[3]);
        assert(a.subrange(4, 4 + l) =~= s.subrange(4, 4 + l));
    } else {
        lemma_unframe_consumed(s.skip(4 + l));
        let k2 = unframe(s.skip(4 + l)).unwrap().0;
        assert(k == 4 + l + k2);
        assert(a[0] == s[0] && a[1] == s[1] && a[2] == s[2] && a[3] == s[3]);
        assert(a.skip(4 + l) =~= s.skip(4 + l).take(k2));
        assert(a.subrange(4, 4 + l) =~= s.subrange(4, 4 + l));
    }
}


// abstract framing machine, defined from the property statement
pub struct A { pub wire: Seq<u8>, pub pend: Seq<u8>, pub seq: u8, pub cont: bool }

pub open spec fn emit(a: A) -> A {
    A { wire: a.wire + le24(a.pend.len() as int) + seq![a.seq] + a.pend, pend: Seq::empty(), seq: wrap1(a.seq), cont: a.pend.len() == MAXP() }
}

// append b (any length) to the open message
pub open spec fn step_write(a: A, b: Seq<u8>) -> A
    decreases b.len()
{
    let room = MAXP() - a.pend.len();
    if a.pend.len() >= MAXP() || b.len() == 0 { a }   // callers keep |pend| < MAXP
    else if b.len() < room { A { pend: a.pend + b, ..a } }
    else { step_write(emit(A { pend: a.pend + b.take(room), ..a }), b.skip(room)) }
}

pub open spec fn step_end(a: A) -> A {
    if a.pend.len() != 0 || a.cont { emit(a) } else { a }
}

// invariant tying the machine to `frame`
pub open spec fn full_frags(x: Seq<u8>, s: u8) -> Seq<u8>
    decreases x.len()
{
    if x.len() < MAXP() { Seq::empty() }
    else { le24(MAXP()) + seq![s] + x.take(MAXP()) + full_frags(x.skip(MAXP()), wrap1(s)) }
}
pub open spec fn nseq(s: u8, q: int) -> u8 decreases q { if q <= 0 { s } else { nseq(wrap1(s), q - 1) } }

pub open spec fn inv(a: A, wire0: Seq<u8>, s0: u8, m: Seq<u8>) -> bool {
    let q = m.len() as int / MAXP();
    &&& a.pend.len() < MAXP()
    &&& a.wire == wire0 + full_frags(m, s0)
    &&& a.pend == m.skip(q * MAXP())
    &&& a.seq == nseq(s0, q)
    &&& a.cont == (q >= 1)
}

pub proof fn lemma_full_frags_push(m: Seq<u8>, s0: u8, b: Seq<u8>)
    requires (m.len() as int % MAXP()) + b.len() == MAXP()
    ensures ({
        let q = m.len() as int / MAXP();
        full_frags(m + b, s0) == full_frags(m, s0) + le24(MAXP()) + seq![nseq(s0, q)] + (m.skip(q * MAXP()) + b)
    })
    decreases m.len()
{
    let q = m.len() as int / MAXP();
    if m.len() < MAXP() {
        assert(q == 0);
        assert(m.skip(0) =~= m);
        assert((m + b).take(MAXP()) =~= m + b);
        assert((m + b).skip(MAXP()).len() == 0);
        assert(full_frags((m + b).skip(MAXP()), wrap1(s0)) =~= Seq::<u8>::empty());
        assert(full_frags(m, s0) =~= Seq::<u8>::empty());
        assert(full_frags(m + b, s0) =~= le24(MAXP()) + seq![s0] + (m + b));
    } else {
        let m2 = m.skip(MAXP());
        assert(m2.len() as int % MAXP() == m.len() as int % MAXP()) by (nonlinear_arith)
            requires m2.len() == m.len() - MAXP(), m.len() >= MAXP(), MAXP() == 0xFFFFFF;
        assert(m2.len() as int / MAXP() == q - 1) by (nonlinear_arith)
            requires m2.len() == m.len() - MAXP(), m.len() >= MAXP(), q == m.len() as int / MAXP(), MAXP() == 0xFFFFFF;
        lemma_full_frags_push(m2, wrap1(s0), b);
        assert((m + b).take(MAXP()) =~= m.take(MAXP()));
        assert((m + b).skip(MAXP()) =~= m2 + b);
        assert(m2.skip((q - 1) * MAXP()) =~= m.skip(q * MAXP()));
        assert(nseq(wrap1(s0), q - 1) == nseq(s0, q));
        assert(full_frags(m + b, s0) =~= full_frags(m, s0) + le24(MAXP()) + seq![nseq(s0, q)] + (m.skip(q * MAXP()) + b));
    }
}

pub proof fn lemma_full_frags_small(m: Seq<u8>, s0: u8, b: Seq<u8>)
    requires (m.len() as int % MAXP()) + b.len() < MAXP()
    ensures full_frags(m + b, s0) == full_frags(m, s0),
            (m + b).len() as int / MAXP() == m.len() as int / MAXP(),
    decreases m.len()
{
    if m.len() < MAXP() {
        assert(m.len() as int % MAXP() == m.len()) by (nonlinear_arith) requires 0 <= m.len() < MAXP(), MAXP() == 0xFFFFFF;
        assert((m + b).len() as int / MAXP() == 0 && m.len() as int / MAXP() == 0) by (nonlinear_arith)
            requires 0 <= m.len(), (m+b).len() == m.len() + b.len(), m.len() + b.len() < MAXP(), MAXP() == 0xFFFFFF, b.len() >= 0;
    } else {
        let m2 = m.skip(MAXP());
        assert(m2.len() as int % MAXP() == m.len() as int % MAXP()) by (nonlinear_arith)
            requires m2.len() == m.len() - MAXP(), m.len() >= MAXP(), MAXP() == 0xFFFFFF;
        lemma_full_frags_small(m2, wrap1(s0), b);
        assert((m + b).take(MAXP()) =~= m.take(MAXP()));
        assert((m + b).skip(MAXP()) =~= m2 + b);
        assert((m + b).len() as int / MAXP() == m.len() as int / MAXP()) by (nonlinear_arith)
            requires (m2 + b).len() as int / MAXP() == m2.len() as int / MAXP(), m2.len() == m.len() - MAXP(), (m+b).len() == m.len() + b.len(), (m2+b).len() == m2.len() + b.len(), m.len() >= MAXP(), MAXP() == 0xFFFFFF;
    }
}

// one write step preserves the invariant with m extended by b
pub proof fn lemma_step_write(a: A, wire0: Seq<u8>, s0: u8, m: Seq<u8>, b: Seq<u8>)
    requires inv(a, wire0, s0, m)
    ensures inv(step_write(a, b), wire0, s0, m + b)
    decreases b.len()
{
    let q = m.len() as int / MAXP();
    let room = MAXP() - a.pend.len();
    assert(a.pend.len() == m.len() - q * MAXP());
    assert(a.pend.len() == m.len() as int % MAXP()) by (nonlinear_arith)
        requires a.pend.len() == m.len() - q * MAXP(), q == m.len() as int / MAXP(), MAXP() == 0xFFFFFF, m.len() >= 0;
    if b.len() == 0 {
        assert(m + b =~= m);
    } else if b.len() < room {
        lemma_full_frags_small(m, s0, b);
        assert((m + b).skip(q * MAXP()) =~= m.skip(q * MAXP()) + b);
    } else {
        let b1 = b.take(room);
        let a1 = emit(A { pend: a.pend + b1, ..a });
        lemma_full_frags_push(m, s0, b1);
        let m1 = m + b1;
        assert(m1.len() as int / MAXP() == q + 1 && m1.len() == (q + 1) * MAXP()) by (nonlinear_arith)
            requires m1.len() == m.len() + room, room == MAXP() - (m.len() - q * MAXP()), MAXP() == 0xFFFFFF, q >= 0;
        assert(m1.skip((q + 1) * MAXP()) =~= Seq::<u8>::empty());
        assert(nseq(s0, q + 1) == wrap1(nseq(s0, q))) by { lemma_nseq_succ(s0, q); }
        assert(a1.wire =~= wire0 + full_frags(m1, s0));
        assert(inv(a1, wire0, s0, m1));
        lemma_step_write(a1, wire0, s0, m1, b.skip(room));
        assert(m1 + b.skip(room) =~= m + b);
    }
}

pub proof fn lemma_nseq_succ(s: u8, q: int)
    requires q >= 0
    ensures nseq(s, q + 1) == wrap1(nseq(s, q))
    decreases q
{
    reveal_with_fuel(nseq, 3);
    if q > 0 { lemma_nseq_succ(wrap1(s), q - 1); assert(nseq(s, q + 1) == nseq(wrap1(s), q)); assert(nseq(s, q) == nseq(wrap1(s), q - 1)); }
}

// frame(m) = full fragments + final short packet
pub proof fn lemma_frame_split(m: Seq<u8>, s0: u8)
    ensures ({
        let q = m.len() as int / MAXP();
        let tail = m.skip(q * MAXP());
        frame(m, s0) == full_frags(m, s0) + le24(tail.len() as int) + seq![nseq(s0, q)] + tail
    })
    decreases m.len()
{
    let q = m.len() as int / MAXP();
    if m.len() < MAXP() {
        assert(q == 0) by (nonlinear_arith) requires 0 <= m.len() < MAXP(), q == m.len() as int / MAXP(), MAXP() == 0xFFFFFF;
        assert(m.skip(0) =~= m);
        assert(frame(m, s0) =~= full_frags(m, s0) + le24(m.len() as int) + seq![s0] + m);
    } else {
        let m2 = m.skip(MAXP());
        assert(m2.len() as int / MAXP() == q - 1) by (nonlinear_arith)
            requires m2.len() == m.len() - MAXP(), m.len() >= MAXP(), q == m.len() as int / MAXP(), MAXP() == 0xFFFFFF;
        lemma_frame_split(m2, wrap1(s0));
        assert(m2.skip((q - 1) * MAXP()) =~= m.skip(q * MAXP()));
        assert(nseq(wrap1(s0), q - 1) == nseq(s0, q));
        let tail = m.skip(q * MAXP());
        assert(frame(m, s0) =~= full_frags(m, s0) + le24(tail.len() as int) + seq![nseq(s0, q)] + tail);
    }
}

// C04.frame: any chunking of a non-empty message, then end_packet, puts exactly frame(m) on the wire
pub proof fn lemma_c04(a: A, wire0: Seq<u8>, s0: u8, m: Seq<u8>)
    requires inv(a, wire0, s0, m), m.len() > 0
    ensures step_end(a).wire == wire0 + frame(m, s0),
            step_end(a).pend.len() == 0, !step_end(a).cont,
            step_end(a).seq == nseq(s0, m.len() as int / MAXP() + 1)
{
    let q = m.len() as int / MAXP();
    lemma_frame_split(m, s0);
    lemma_nseq_succ(s0, q);
    assert(a.pend.len() != 0 || a.cont) by {
        if q == 0 {
            assert(m.skip(0) =~= m);
        }
    }
    assert(step_end(a).wire =~= wire0 + frame(m, s0));
}
}
fn main() {}
