use vstd::prelude::*;
use std::collections::HashMap;
verus! {
global size_of usize == 8;

// ------------------------------------------------------------------ prelude: io, errors
#[verifier::external_body]
#[derive(Debug)]
pub struct IoError { _p: () }
pub mod io {
    pub type Result<T> = core::result::Result<T, super::IoError>;
    pub type Error = super::IoError;
    pub enum ErrorKind { InvalidData, UnexpectedEof, ConnectionAborted, Other }
}
impl IoError {
    #[verifier::external_body]
    pub fn new<E>(kind: io::ErrorKind, e: E) -> (r: IoError) { unimplemented!() }
}
#[verifier::external_body]
#[derive(Debug)]
pub struct Utf8Error { _p: () }
pub uninterp spec fn valid_utf8(b: Seq<u8>) -> bool;
pub uninterp spec fn str_b(s: &str) -> Seq<u8>;
#[verifier::external_body]
pub fn from_utf8<'a>(b: &'a [u8]) -> (r: Result<&'a str, Utf8Error>)
    ensures r.is_ok() <==> valid_utf8(b@), r.is_ok() ==> str_b(r.unwrap()) == b@
{ unimplemented!() }
pub uninterp spec fn bare(b: Seq<u8>) -> Seq<u8>;
#[verifier::external_body]
pub fn str_bare<'a>(s: &'a str) -> (r: &'a str) ensures str_b(r) == bare(str_b(s)) { unimplemented!() }
#[verifier::external_body]
pub fn starts_with(q: &[u8], p: &[u8]) -> (r: bool)
    ensures r == (q@.len() >= p@.len() && q@.take(p@.len() as int) == p@)
{ unimplemented!() }

// ------------------------------------------------------------------ prelude: PacketConn as seen by the hub (contracts proved in U1)
pub struct PacketConn { pub seq_: Ghost<u8>, pub sent_: Ghost<Seq<Seq<u8>>>, pub open_: Ghost<Seq<u8>>, pub flushed_: Ghost<bool>, pub pending_: Ghost<Seq<u8>>, pub faulted_: Ghost<bool> }
impl PacketConn {
    pub open spec fn sent(&self) -> Seq<Seq<u8>> { self.sent_@ }
    pub open spec fn open(&self) -> Seq<u8> { self.open_@ }
    pub open spec fn seq(&self) -> u8 { self.seq_@ }
    pub open spec fn pending(&self) -> Seq<u8> { self.pending_@ }
    pub open spec fn all_flushed(&self) -> bool { self.flushed_@ && self.open().len() == 0 && self.sent().len() == 0 }
    #[verifier::external_body]
    pub fn flush(&mut self) -> (r: io::Result<()>)
        ensures r.is_ok() ==> final(self).all_flushed(), final(self).pending() == old(self).pending()
    { unimplemented!() }
    #[verifier::external_body]
    pub fn set_seq(&mut self, s: u8)
        ensures final(self).seq() == s, final(self).sent() == old(self).sent(), final(self).open() == old(self).open(),
                final(self).flushed_ == old(self).flushed_, final(self).pending() == old(self).pending()
    { unimplemented!() }
    #[verifier::external_body]
    pub fn next(&mut self) -> (r: io::Result<Option<(u8, Packet)>>)
        requires old(self).all_flushed()                                   // C12
        ensures final(self).all_flushed(),
            match r {
                Ok(Some((seq, p))) => old(self).pending().len() > final(self).pending().len() && p.0@.len() >= 0,
                Ok(None) => old(self).pending().len() == 0,
                Err(_) => true,
            }
    { unimplemented!() }
}
pub struct Packet(pub Vec<u8>);

// ------------------------------------------------------------------ prelude: commands (contract proved by Kani K2)
pub enum Command<'a> {
    Query(&'a [u8]), ListFields(&'a [u8]), Close(u32), Prepare(&'a [u8]), Init(&'a [u8]),
    Execute { stmt: u32, params: &'a [u8] }, SendLongData { stmt: u32, param: u16, data: &'a [u8] }, Ping, Quit,
}
pub enum CmdSpec { Query(Seq<u8>), ListFields(Seq<u8>), Close(u32), Prepare(Seq<u8>), Init(Seq<u8>), Execute(u32, Seq<u8>), SendLongData(u32, u16, Seq<u8>), Ping, Quit }
pub uninterp spec fn cmd_of(p: Seq<u8>) -> Option<CmdSpec>;
pub open spec fn cmd_view(c: Command<'_>) -> CmdSpec {
    match c {
        Command::Query(q) => CmdSpec::Query(q@), Command::ListFields(q) => CmdSpec::ListFields(q@), Command::Close(s) => CmdSpec::Close(s),
        Command::Prepare(q) => CmdSpec::Prepare(q@), Command::Init(q) => CmdSpec::Init(q@),
        Command::Execute { stmt, params } => CmdSpec::Execute(stmt, params@),
        Command::SendLongData { stmt, param, data } => CmdSpec::SendLongData(stmt, param, data@),
        Command::Ping => CmdSpec::Ping, Command::Quit => CmdSpec::Quit,
    }
}
pub mod commands {
    use super::*;
    #[verifier::external_body]
    pub fn parse<'a>(i: &'a Packet) -> (r: Result<(&'a [u8], Command<'a>), ()>)
        ensures r.is_ok() <==> cmd_of(i.0@).is_some(), r.is_ok() ==> Some(cmd_view(r.unwrap().1)) == cmd_of(i.0@)
    { unimplemented!() }
}

// ------------------------------------------------------------------ prelude: writers handed to the shim (contracts proved in U3)
pub struct StatementData { pub long_data: HashMap<u16, Vec<u8>>, pub bound_types: Vec<(u8, bool)>, pub params: u16 }
pub struct QueryResultWriter<'a> { pub is_bin: bool, pub writer: &'a mut PacketConn }
impl<'a> QueryResultWriter<'a> {
    pub fn new(writer: &'a mut PacketConn, is_bin: bool) -> (r: Self)
        ensures r.is_bin == is_bin, *r.writer == *old(writer), *final(r.writer) == *final(writer)
    { QueryResultWriter { is_bin, writer } }
    #[verifier::external_body]
    pub fn completed(self, rows: u64, last_insert_id: u64) -> (r: io::Result<()>)
        ensures final(self.writer).pending() == old(self.writer).pending(), final(self.writer).flushed_ == old(self.writer).flushed_
    { unimplemented!() }
}
pub struct InitWriter<'a> { pub writer: &'a mut PacketConn }
pub struct StatementMetaWriter<'a> { pub writer: &'a mut PacketConn, pub stmts: &'a mut HashMap<u32, StatementData> }
pub struct ParamParser<'a> { pub params: u16, pub bytes: &'a [u8], pub long_data: &'a HashMap<u16, Vec<u8>>, pub bound_types: &'a mut Vec<(u8, bool)> }
pub mod params {
    use super::*;
    impl<'a> ParamParser<'a> {
        #[verifier::external_body]
        pub fn new(input: &'a [u8], stmt: &'a mut StatementData) -> (r: Self)
            ensures r.params == old(stmt).params, r.bytes@ == input@, r.long_data@ == old(stmt).long_data@,
                    final(stmt).long_data@ == old(stmt).long_data@, final(stmt).params == old(stmt).params,
        { unimplemented!() }
    }
}
pub mod writers {
    use super::*;
    #[verifier::external_body]
    pub fn write_ok_packet(w: &mut PacketConn, rows: u64, last_insert_id: u64, s: u16) -> (r: io::Result<()>)
        ensures final(w).pending() == old(w).pending()
    { unimplemented!() }
    #[verifier::external_body]
    pub fn write_field_list(w: &mut PacketConn) -> (r: io::Result<()>)
        ensures final(w).pending() == old(w).pending()
    { unimplemented!() }
}

// ------------------------------------------------------------------ ghost shim
pub enum Ev { Query(Seq<u8>), Prepare(Seq<u8>), Execute(u32, Seq<u8>), Close(u32), Init(Seq<u8>) }
pub trait MysqlShim {
    type Error: From<IoError>;
    spec fn log(&self) -> Seq<Ev>;
    fn on_prepare(&mut self, query: &str, info: StatementMetaWriter<'_>) -> (r: Result<(), Self::Error>)
        ensures final(self).log() == old(self).log().push(Ev::Prepare(str_b(query))),
                final(info.writer).pending() == old(info.writer).pending();
    fn on_execute(&mut self, id: u32, params: ParamParser<'_>, results: QueryResultWriter<'_>) -> (r: Result<(), Self::Error>)
        ensures final(self).log() == old(self).log().push(Ev::Execute(id, params.bytes@)),
                final(results.writer).pending() == old(results.writer).pending();
    fn on_close(&mut self, stmt: u32)
        ensures final(self).log() == old(self).log().push(Ev::Close(stmt));
    fn on_query(&mut self, query: &str, results: QueryResultWriter<'_>) -> (r: Result<(), Self::Error>)
        ensures final(self).log() == old(self).log().push(Ev::Query(str_b(query))),
                final(results.writer).pending() == old(results.writer).pending();
    fn on_init(&mut self, schema: &str, w: InitWriter<'_>) -> (r: Result<(), Self::Error>)
        ensures final(self).log() == old(self).log().push(Ev::Init(str_b(schema))),
                final(w.writer).pending() == old(w.writer).pending();
}

#[verifier::external_body]
fn hm_get_mut<'a>(m: &'a mut HashMap<u32, StatementData>, k: u32) -> (r: Option<&'a mut StatementData>)
    ensures
        r.is_some() == old(m)@.contains_key(k),
        r.is_some() ==> *r.unwrap() == old(m)@[k] && final(m)@ == old(m)@.insert(k, *final(r.unwrap())),
        r.is_none() ==> final(m)@ == old(m)@,
{ m.get_mut(&k) }
#[verifier::external_body]
fn hm_append(m: &mut HashMap<u16, Vec<u8>>, k: u16, d: &[u8])
    ensures final(m)@.contains_key(k),
            final(m)@[k]@ == (if old(m)@.contains_key(k) { old(m)@[k]@ } else { Seq::empty() }) + d@,
            forall|j: u16| j != k ==> (final(m)@.contains_key(j) == old(m)@.contains_key(j)) && (old(m)@.contains_key(j) ==> final(m)@[j] == old(m)@[j]),
{ m.entry(k).or_insert_with(Vec::new).extend(d); }

// ------------------------------------------------------------------ the property's dispatch table (C02)
pub open spec fn sel1() -> Seq<u8> { seq![83u8, 69, 76, 69, 67, 84, 32, 64, 64] }   // "SELECT @@"
pub open spec fn sel2() -> Seq<u8> { seq![115u8, 101, 108, 101, 99, 116, 32, 64, 64] } // "select @@"
pub open spec fn use1() -> Seq<u8> { seq![85u8, 83, 69, 32] }   // "USE "
pub open spec fn use2() -> Seq<u8> { seq![117u8, 115, 101, 32] } // "use "
pub open spec fn pre(q: Seq<u8>, p: Seq<u8>) -> bool { q.len() >= p.len() && q.take(p.len() as int) == p }
pub open spec fn dispatch(c: CmdSpec) -> Seq<Ev> {
    match c {
        CmdSpec::Query(q) => if pre(q, sel1()) || pre(q, sel2()) { seq![] }
                             else if pre(q, use1()) || pre(q, use2()) { seq![Ev::Init(bare(q.skip(4)))] }
                             else { seq![Ev::Query(q)] },
        CmdSpec::Prepare(q) => seq![Ev::Prepare(q)],
        CmdSpec::Execute(s, p) => seq![Ev::Execute(s, p)],
        CmdSpec::Close(s) => seq![Ev::Close(s)],
        CmdSpec::Init(s) => seq![Ev::Init(s)],
        _ => seq![],
    }
}

pub struct MysqlIntermediary<B: MysqlShim> { pub shim: B, pub rw: PacketConn }

impl<B: MysqlShim> MysqlIntermediary<B> {
    fn run(self) -> (r: Result<(), B::Error>)
        requires self.rw.all_flushed()
    {
        let mut self_ = self;
        let mut stmts: HashMap<u32, StatementData> = HashMap::new();
        while let Some((seq, packet)) = self_.rw.next()?
            invariant self_.rw.all_flushed()
            decreases self_.rw.pending().len()
        {
            self_.rw.set_seq(seq.wrapping_add(1));
            let cmd = commands::parse(&packet).unwrap().1;
            let ghost log0 = self_.shim.log();
            let ghost reg0 = stmts@;
            match cmd {
                Command::Query(q) => {
                    if starts_with(q, &[83u8, 69, 76, 69, 67, 84, 32, 64, 64]) || starts_with(q, &[115u8, 101, 108, 101, 99, 116, 32, 64, 64]) {
                        let w = QueryResultWriter::new(&mut self_.rw, false);
                        w.completed(0, 0)?;
                    } else if starts_with(q, &[85u8, 83, 69, 32]) || starts_with(q, &[117u8, 115, 101, 32]) {
                        let w = InitWriter {
                            writer: &mut self_.rw,
                        };
                        let schema = from_utf8(&q[4..])
                            .map_err(|e| io::Error::new(io::ErrorKind::InvalidData, e))?;
                        let schema = str_bare(schema);
                        self_.shim.on_init(schema, w)?;
                    } else {
                        let w = QueryResultWriter::new(&mut self_.rw, false);
                        self_.shim.on_query(
                            from_utf8(q)
                                .map_err(|e| io::Error::new(io::ErrorKind::InvalidData, e))?,
                            w,
                        )?;
                    }
                }
                Command::Prepare(q) => {
                    let w = StatementMetaWriter {
                        writer: &mut self_.rw,
                        stmts: &mut stmts,
                    };

                    self_.shim.on_prepare(
                        from_utf8(q)
                            .map_err(|e| io::Error::new(io::ErrorKind::InvalidData, e))?,
                        w,
                    )?;
                }
                Command::Execute { stmt, params } => {
                    let state = hm_get_mut(&mut stmts, stmt).ok_or_else(|| {
                        io::Error::new(
                            io::ErrorKind::InvalidData,
                            (),
                        )
                    })?;
                    {
                        let params = ParamParser::new(params, state);
                        let w = QueryResultWriter::new(&mut self_.rw, true);
                        self_.shim.on_execute(stmt, params, w)?;
                    }
                    state.long_data.clear();
                }
                Command::SendLongData { stmt, param, data } => {
                    hm_append(&mut hm_get_mut(&mut stmts, stmt)
                        .ok_or_else(|| {
                            io::Error::new(
                                io::ErrorKind::InvalidData,
                                (),
                            )
                        })?
                        .long_data, param, data);
                }
                Command::Close(stmt) => {
                    self_.shim.on_close(stmt);
                    stmts.remove(&stmt);
                    // NOTE: spec dictates no response from server
                }
                Command::ListFields(_) => {
                    writers::write_field_list(&mut self_.rw)?;
                }
                Command::Init(schema) => {
                    let w = InitWriter {
                        writer: &mut self_.rw,
                    };
                    self_.shim.on_init(
                        from_utf8(schema)
                            .map_err(|e| io::Error::new(io::ErrorKind::InvalidData, e))?,
                        w,
                    )?;
                }
                Command::Ping => {
                    writers::write_ok_packet(&mut self_.rw, 0, 0, 0)?;
                }
                Command::Quit => {
                    break;
                }
            }
            proof {
                // C02: exactly the callbacks the dispatch table prescribes, with verbatim arguments
                assert(self_.shim.log() =~= log0 + dispatch(cmd_view(cmd)));
            }
            self_.rw.flush()?;
        }
        Ok(())
    }
}
}
fn main() {}
