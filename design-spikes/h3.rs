use vstd::prelude::*;
use std::collections::HashMap;
verus! {

pub struct StatementData { pub params: u16, pub bound: Vec<u8> }

#[verifier::external_body]
fn hm_get_mut<'a>(m: &'a mut HashMap<u32, StatementData>, k: u32) -> (r: Option<&'a mut StatementData>)
    ensures
        r.is_some() == old(m)@.contains_key(k),
        r.is_some() ==> *r.unwrap() == old(m)@[k] && final(m)@ == old(m)@.insert(k, *final(r.unwrap())),
        r.is_none() ==> final(m)@ == old(m)@,
{ m.get_mut(&k) }

fn run(stmts: &mut HashMap<u32, StatementData>, k: u32)
    ensures
        old(stmts)@.contains_key(k) ==> final(stmts)@.contains_key(k) && final(stmts)@[k].params == 3,
        forall|j: u32| j != k && old(stmts)@.contains_key(j) ==> final(stmts)@.contains_key(j) && final(stmts)@[j] == old(stmts)@[j],
{
    let state = hm_get_mut(stmts, k);
    match state {
        Some(s) => { s.bound.clear(); s.params = 3; }
        None => {}
    }
}
}
fn main() {}
