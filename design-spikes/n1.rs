use vstd::prelude::*;
verus! {

pub const U24_MAX: usize = 16_777_215;

#[verifier::external_body]
pub struct IoError { _p: () }
pub type IoResult<T> = Result<T, IoError>;

pub trait Transport {
    spec fn inbox(&self) -> Seq<u8>;   // bytes the peer has sent / will send that we have not read yet
    spec fn eof_clean(&self) -> bool;
    fn read(&mut self, buf: &mut [u8]) -> (r: IoResult<usize>)
        ensures
            final(buf)@.len() == old(buf)@.len(),
            match r {
                Ok(n) => n <= old(buf)@.len() && n <= old(self).inbox().len()
                    && final(self).inbox() == old(self).inbox().skip(n as int)
                    && final(buf)@.take(n as int) == old(self).inbox().take(n as int)
                    && (n == 0 ==> old(buf)@.len() == 0 || old(self).inbox().len() == 0),
                Err(_) => true,
            };
}

pub struct Packet(pub Vec<u8>);

pub enum NomErr { Incomplete, Error, Failure }

// spec of the framing grammar
pub open spec fn le24(s: Seq<u8>) -> int { s[0] as int + 256 * (s[1] as int) + 65536 * (s[2] as int) }

// number of bytes consumed and payload, if s starts with a complete logical packet
pub open spec fn spec_packet(s: Seq<u8>) -> Option<(int, u8, Seq<u8>)>
    decreases s.len()
{
    if s.len() < 4 { None }
    else {
        let l = le24(s);
        if s.len() < 4 + l { None }
        else if l < U24_MAX as int { Some((4 + l, s[3], s.subrange(4, 4 + l))) }
        else {
            match spec_packet(s.skip(4 + l)) {
                None => None,
                Some((k, sq, p)) => Some((4 + l + k, sq, s.subrange(4, 4 + l) + p)),
            }
        }
    }
}

#[verifier::external_body]
fn packet(i: &[u8]) -> (r: Result<(usize, (u8, Packet)), NomErr>)
    ensures match r {
        Ok((restlen, (seq, p))) => spec_packet(i@) == Some(((i@.len() - restlen) as int, seq, p.0@)) && restlen <= i@.len(),
        Err(NomErr::Failure) => false,
        Err(_) => spec_packet(i@).is_none(),
    }
{ unimplemented!() }

#[verifier::external_body]
fn vec_drain_prefix(v: &mut Vec<u8>, n: usize)
    requires n <= old(v).len()
    ensures final(v)@ == old(v)@.skip(n as int)
{ v.drain(0..n); }

fn max(a: usize, b: usize) -> (r: usize) ensures r == if a >= b { a } else { b } { if a >= b { a } else { b } }

#[verifier::external_body]
fn io_err() -> IoError { unimplemented!() }

pub struct PacketConn<RW: Transport> {
    pub rw: RW,
    pub bytes: Vec<u8>,
    pub start: usize,
    pub remaining: usize,
    pub to_write: Vec<u8>,
    pub seq: u8,
}

impl<R: Transport> PacketConn<R> {
    pub open spec fn rd_wf(&self) -> bool { self.remaining <= self.bytes.len() && self.bytes.len() <= usize::MAX / 2 }
    pub open spec fn pending(&self) -> Seq<u8> {
        self.bytes@.skip(self.bytes.len() - self.remaining) + self.rw.inbox()
    }

    pub fn next(&mut self) -> (r: IoResult<Option<(u8, Packet)>>)
        requires old(self).rd_wf()
        ensures
            match r {
                Ok(Some((seq, p))) => final(self).rd_wf() && exists|k: int| spec_packet(old(self).pending().take(k)) == Some((k, seq, p.0@))
                     && 0 <= k <= old(self).pending().len() && final(self).pending() == old(self).pending().skip(k),
                Ok(None) => old(self).pending().len() == 0,
                Err(_) => true,
            }
    {
        self.start = self.bytes.len() - self.remaining;

        loop
            invariant
                self.rd_wf(),
                self.start == self.bytes.len() - self.remaining,
                self.pending() == old(self).pending(),
            decreases self.rw.inbox().len(),
        {
            if self.remaining != 0 {
                match packet(&self.bytes[self.start..]) {
                    Ok((rest, p)) => {
                        self.remaining = rest;
                        return Ok(Some(p));
                    }
                    Err(NomErr::Incomplete) | Err(NomErr::Error) => {}
                    Err(NomErr::Failure) => {
                        return Err(io_err())
                    }
                }
            }

            // we need to read some more
            vec_drain_prefix(&mut self.bytes, self.start);
            self.start = 0;
            let end = self.bytes.len();
            self.bytes.resize(max(4096, end * 2), 0);
            let read = {
                let buf = &mut self.bytes[end..];
                self.rw.read(buf)?
            };
            self.bytes.truncate(end + read);
            self.remaining = self.bytes.len();

            if read == 0 {
                if self.bytes.is_empty() {
                    return Ok(None);
                } else {
                    return Err(io_err());
                }
            }
        }
    }
}

} // verus!
fn main() {}
