use vstd::prelude::*;
use vstd::std_specs::iter::IteratorSpec;
verus! {
pub struct Column { pub t: u8 }

fn b<'a>(i: core::slice::Iter<'a, Column>, out: &mut Vec<u8>)
    ensures final(out)@.len() == old(out)@.len() + i.remaining().len()
{
    let ghost n0 = out@.len();
    for c in it: i
        invariant out@.len() == n0 + it.index@
    {
        out.push(c.t);
    }
}

fn g<'a, I: Iterator<Item = &'a Column>>(i: I, out: &mut Vec<u8>)
    requires i.obeys_prophetic_iter_laws()
    ensures final(out)@.len() == old(out)@.len() + i.remaining().len()
{
    let ghost n0 = out@.len();
    for c in it: i
        invariant out@.len() == n0 + it.index@
    {
        out.push(c.t);
    }
}
}
fn main() {}
