// The Kani harness family for packet() that CBMC could not decide in this sandbox (memory > 27 GB with
// symbolic or concrete sequence ids after the D7/D8 repair). Kept for reference; the bounded stand-in
// is /verif/native/n1_packet.rs.
// ---- packet(): fullpacket replaced by its proved contract with chunk size K
const K: usize = 2;
pub fn fullpacket_k(i: &[u8]) -> nom::IResult<&[u8], (u8, &[u8])> {
    if i.len() >= 4 + K && i[0] == 0xff && i[1] == 0xff && i[2] == 0xff {
        Ok((&i[4 + K..], (i[3], &i[4..4 + K])))
    } else {
        Err(nom::Err::Error(nom::error::Error::new(i, nom::error::ErrorKind::Tag)))
    }
}

macro_rules! k1_packet {
    ($name:ident, $maxf:expr, $tail:expr, $unwind:expr, $ids:expr) => {
        #[cfg(kani)]
        #[kani::proof]
        #[kani::stub(crate::packet::fullpacket, fullpacket_k)]
        #[kani::stub(std::fmt::format, fmt_stub)]
        #[kani::unwind($unwind)]
        pub fn $name() {
            const MAXF: usize = $maxf; // continuation fragments
            const TAIL: usize = $tail; // bytes available for the final packet's payload + slack
            const N: usize = MAXF * (4 + K) + 4 + TAIL;
            let mut b: [u8; N] = vk::any();
            let n: usize = vk::any();
            vk::assume(n <= N);
            // the sequence-id bytes of the possible fragment headers are fixed per harness (CBMC ran out
            // of memory with symbolic ids); the harness family covers in-order, wrap-around and
            // out-of-order patterns. Lengths and payload bytes stay symbolic.
            let ids: [u8; 4] = $ids;
            let mut j = 0;
            while j <= MAXF {
                b[j * (4 + K) + 3] = ids[j];
                j += 1;
            }
            let i = &b[..n];

            // spec side: unframe with chunk size K (DESIGN.md section 4), at most MAXF full fragments
            let mut pos = 0usize;
            let mut nfull = 0usize;
            let mut in_order = true;
            let mut prev_seq = 0u8;
            while nfull < MAXF && n >= pos + 4 + K && b[pos] == 0xff && b[pos + 1] == 0xff && b[pos + 2] == 0xff {
                if nfull > 0 && b[pos + 3] != prev_seq.wrapping_add(1) {
                    in_order = false;
                }
                prev_seq = b[pos + 3];
                pos += 4 + K;
                nfull += 1;
            }
            // exclude inputs with more than MAXF complete full fragments (the stated bound)
            vk::assume(!(n >= pos + 4 + K && b[pos] == 0xff && b[pos + 1] == 0xff && b[pos + 2] == 0xff));
            let have_last = n >= pos + 4 && {
                let l = b[pos] as usize + 256 * (b[pos + 1] as usize) + 65536 * (b[pos + 2] as usize);
                n >= pos + 4 + l
            };
            let r = packet(i);
            if have_last {
                let l = b[pos] as usize + 256 * (b[pos + 1] as usize) + 65536 * (b[pos + 2] as usize);
                let last_seq = b[pos + 3];
                if nfull > 0 && last_seq != prev_seq.wrapping_add(1) {
                    in_order = false;
                }
                vk_cover!(nfull == MAXF, "cover: maximal number of continuation fragments");
                vk_cover!(nfull == 1 && l == 0, "cover: exact multiple closed by an empty packet");
                match r {
                    Ok((rest, (seq, p, ok))) => {
                        vk_assert!(ok == in_order, "[C20.packet.order] the in-order flag does not say whether the fragment ids were consecutive");
                        vk_assert!(seq == last_seq, "[C05.packet.lastseq] returned id is not the last fragment's");
                        vk_assert!(p.len() == nfull * K + l, "[C01.packet] reassembled length differs");
                        vk_assert!(rest.len() == n - (pos + 4 + l), "[C01.packet] consumed length differs");
                        let k: usize = vk::any();
                        vk::assume(k < p.len());
                        let src = if k < nfull * K { (k / K) * (4 + K) + 4 + (k % K) } else { pos + 4 + (k - nfull * K) };
                        vk_assert!(p[k] == b[src], "[C01.packet] payload byte differs from its source byte");
                    }
                    Err(nom::Err::Failure(_)) => {
                        vk_assert!(false, "[C01.packet] complete message rejected with Failure");
                    }
                    Err(_) => {
                        vk_assert!(false, "[C01.packet] complete message reported incomplete");
                    }
                }
            } else {
                vk_cover!(nfull == 1, "cover: incomplete after one fragment");
                vk_assert!(
                    matches!(r, Err(nom::Err::Error(_)) | Err(nom::Err::Incomplete(_))),
                    "[C01.packet] incomplete message must yield a recoverable error"
                );
            }
        }
    };
}
k1_packet!(k1_packet_f2_inorder, 2, 2, 9, [7, 8, 9, 10]);
k1_packet!(k1_packet_f2_wrap, 2, 2, 9, [254, 255, 0, 1]);
k1_packet!(k1_packet_f2_ooo_mid, 2, 2, 9, [7, 9, 10, 11]);
k1_packet!(k1_packet_f2_ooo_last, 2, 2, 9, [7, 8, 8, 0]);
k1_packet!(k1_packet_f3_inorder, 3, 2, 10, [255, 0, 1, 2]);
k1_packet!(k1_packet_f3_ooo, 3, 2, 10, [3, 4, 5, 7]);
