use vstd::prelude::*;
verus! {
pub open spec fn MAXP() -> int { 0xFF_FFFF }

pub open spec fn le24(n: int) -> Seq<u8> {
    seq![(n % 256) as u8, ((n / 256) % 256) as u8, ((n / 65536) % 256) as u8]
}
pub open spec fn le24_val(s: Seq<u8>) -> int {
    s[0] as int + 256 * (s[1] as int) + 65536 * (s[2] as int)
}
pub proof fn lemma_le24(n: int)
    requires 0 <= n < 0x100_0000
    ensures le24(n).len() == 3, le24_val(le24(n)) == n
{
}

pub open spec fn wrap1(s: u8) -> u8 { if s == 255 { 0u8 } else { (s + 1) as u8 } }

pub open spec fn frame(msg: Seq<u8>, s0: u8) -> Seq<u8>
    decreases msg.len()
{
    if msg.len() < MAXP() {
        le24(msg.len() as int) + seq![s0] + msg
    } else {
        le24(MAXP()) + seq![s0] + msg.take(MAXP()) + frame(msg.skip(MAXP()), wrap1(s0))
    }
}

pub open spec fn last_seq(len: int, s0: u8) -> u8
    decreases len
{
    if len < MAXP() { s0 } else { last_seq(len - MAXP(), wrap1(s0)) }
}

pub open spec fn unframe(s: Seq<u8>) -> Option<(int, u8, Seq<u8>)>
    decreases s.len()
{
    if s.len() < 4 { None } else {
        let l = le24_val(s);
        if s.len() < 4 + l { None }
        else if l < MAXP() { Some((4 + l, s[3], s.subrange(4, 4 + l))) }
        else {
            match unframe(s.skip(4 + l)) {
                None => None,
                Some((k, q, p)) => Some((4 + l + k, q, s.subrange(4, 4 + l) + p)),
            }
        }
    }
}

pub proof fn lemma_le24_val_bound(s: Seq<u8>)
    requires s.len() >= 3
    ensures 0 <= le24_val(s) <= MAXP()
{
}

pub proof fn lemma_roundtrip(m: Seq<u8>, s0: u8, t: Seq<u8>)
    ensures unframe(frame(m, s0) + t) == Some((frame(m, s0).len() as int, last_seq(m.len() as int, s0), m))
    decreases m.len()
{
    let f = frame(m, s0);
    let s = f + t;
    if m.len() < MAXP() {
        let l = m.len() as int;
        lemma_le24(l);
        assert(f.len() == 4 + l);
        assert(s[0] == le24(l)[0] && s[1] == le24(l)[1] && s[2] == le24(l)[2]);
        assert(le24_val(s) == l);
        assert(s[3] == s0);
        assert(s.subrange(4, 4 + l) =~= m);
    } else {
        let l = MAXP();
        lemma_le24(l);
        let rest = frame(m.skip(l), wrap1(s0));
        assert(f == le24(l) + seq![s0] + m.take(l) + rest);
        assert(s[0] == le24(l)[0] && s[1] == le24(l)[1] && s[2] == le24(l)[2]);
        assert(le24_val(s) == l);
        assert(s[3] == s0);
        assert(s.skip(4 + l) =~= rest + t);
        lemma_roundtrip(m.skip(l), wrap1(s0), t);
        assert(s.subrange(4, 4 + l) =~= m.take(l));
        assert(m.take(l) + m.skip(l) =~= m);
        assert(f.len() == 4 + l + rest.len());
    }
}

pub proof fn lemma_prefix_stable(a: Seq<u8>, t: Seq<u8>)
    requires unframe(a).is_some()
    ensures unframe(a + t) == unframe(a)
    decreases a.len()
{
    let s = a + t;
    let l = le24_val(a);
    assert(a.len() >= 4);
    assert(s[0] == a[0] && s[1] == a[1] && s[2] == a[2] && s[3] == a[3]);
    assert(le24_val(s) == l);
    lemma_le24_val_bound(a);
    if l < MAXP() {
        assert(s.subrange(4, 4 + l) =~= a.subrange(4, 4 + l));
    } else {
        assert(s.skip(4 + l) =~= a.skip(4 + l) + t);
        lemma_prefix_stable(a.skip(4 + l), t);
        assert(s.subrange(4, 4 + l) =~= a.subrange(4, 4 + l));
    }
}

pub proof fn lemma_unframe_consumed(s: Seq<u8>)
    requires unframe(s).is_some()
    ensures 4 <= unframe(s).unwrap().0 <= s.len(),
            unframe(s.take(unframe(s).unwrap().0)) == unframe(s)
    decreases s.len()
{
    let l = le24_val(s);
    lemma_le24_val_bound(s);
    let k = unframe(s).unwrap().0;
    let a = s.take(k);
    if l < MAXP() {
        assert(a[0] == s[0] && a[1] == s[1] && a[2] == s[2] && a[3] == s[3]);
        assert(a.subrange(4, 4 + l) =~= s.subrange(4, 4 + l));
    } else {
        lemma_unframe_consumed(s.skip(4 + l));
        let k2 = unframe(s.skip(4 + l)).unwrap().0;
        assert(k == 4 + l + k2);
        assert(a[0] == s[0] && a[1] == s[1] && a[2] == s[2] && a[3] == s[3]);
        assert(a.skip(4 + l) =~= s.skip(4 + l).take(k2));
        assert(a.subrange(4, 4 + l) =~= s.subrange(4, 4 + l));
    }
}


#[verifier::external_body]
pub struct IoError { _p: () }
pub mod io { pub type Result<T> = core::result::Result<T, super::IoError>; }

pub trait Transport {
    spec fn inbox(&self) -> Seq<u8>;
    fn read(&mut self, buf: &mut [u8]) -> (r: io::Result<usize>)
        ensures
            final(buf)@.len() == old(buf)@.len(),
            match r {
                Ok(n) => n <= old(buf)@.len() && n <= old(self).inbox().len()
                    && final(self).inbox() == old(self).inbox().skip(n as int)
                    && final(buf)@.take(n as int) == old(self).inbox().take(n as int)
                    && (n == 0 ==> old(buf)@.len() == 0 || old(self).inbox().len() == 0),
                Err(_) => final(self).inbox() == old(self).inbox(),
            };
}

pub struct Packet(pub Vec<u8>);
pub mod nom { pub enum Err<E> { Incomplete(E), Error(E), Failure(E) } }

#[verifier::external_body]
fn packet(i: &[u8]) -> (r: Result<(&[u8], (u8, Packet)), nom::Err<()>>)
    ensures match r {
        Ok((rest, (seq, p))) => rest@.len() <= i@.len()
            && unframe(i@) == Some(((i@.len() - rest@.len()) as int, seq, p.0@))
            && rest@ == i@.skip(i@.len() - rest@.len()),
        Err(nom::Err::Failure(_)) => false,
        Err(_) => unframe(i@).is_none(),
    }
{ unimplemented!() }

#[verifier::external_body]
fn vec_drain_prefix(v: &mut Vec<u8>, n: usize)
    requires n <= old(v).len()
    ensures final(v)@ == old(v)@.skip(n as int)
{ v.drain(0..n); }

#[verifier::external_body]
fn vec_tail_mut<'a>(v: &'a mut Vec<u8>, a: usize) -> (r: &'a mut [u8])
    requires a <= old(v).len()
    ensures r@ == old(v)@.skip(a as int),
            final(v)@ == old(v)@.take(a as int) + final(r)@,
{ &mut v[a..] }

#[verifier::external_body]
proof fn axiom_vec_len(v: &Vec<u8>) ensures v.len() <= isize::MAX {}

fn max(a: usize, b: usize) -> (r: usize) ensures r == if a >= b { a } else { b } { if a >= b { a } else { b } }

#[verifier::external_body]
fn io_err() -> IoError { unimplemented!() }

pub struct PacketConn<RW: Transport> {
    pub rw: RW,
    pub bytes: Vec<u8>,
    pub start: usize,
    pub remaining: usize,
    pub to_write: Vec<u8>,
    pub seq: u8,
}

impl<R: Transport> PacketConn<R> {
    pub open spec fn rd_wf(&self) -> bool { self.remaining <= self.bytes.len() }
    pub open spec fn buffered(&self) -> Seq<u8> { self.bytes@.skip(self.bytes.len() - self.remaining) }
    pub open spec fn pending(&self) -> Seq<u8> { self.buffered() + self.rw.inbox() }

    pub fn next(&mut self) -> (r: io::Result<Option<(u8, Packet)>>)
        requires old(self).rd_wf()
        ensures
            match r {
                Ok(Some((seq, p))) => final(self).rd_wf()
                    && unframe(old(self).pending()).is_some()
                    && unframe(old(self).pending()).unwrap().1 == seq
                    && unframe(old(self).pending()).unwrap().2 == p.0@
                    && final(self).pending() == old(self).pending().skip(unframe(old(self).pending()).unwrap().0),
                Ok(None) => old(self).pending().len() == 0,
                Err(_) => true,
            },
            // C12: a buffered complete packet is served without reading
            unframe(old(self).buffered()).is_some() ==> final(self).rw.inbox() == old(self).rw.inbox() && r.is_ok(),
    {
        self.start = self.bytes.len() - self.remaining;

        loop
            invariant
                self.rd_wf(),
                self.start == self.bytes.len() - self.remaining,
                self.pending() == old(self).pending(),
                unframe(old(self).buffered()).is_some() ==> self.rw.inbox() == old(self).rw.inbox() && self.buffered() == old(self).buffered(),
            decreases self.rw.inbox().len(),
        {
            if self.remaining != 0 {
                match packet(&self.bytes[self.start..]) {
                    Ok((rest, p)) => {
                        proof {
                            lemma_prefix_stable(self.buffered(), self.rw.inbox());
                            lemma_unframe_consumed(self.buffered());
                            let k = self.buffered().len() - rest@.len();
                            assert(self.pending().skip(k) =~= self.buffered().skip(k) + self.rw.inbox());
                            assert(self.bytes@.skip(self.bytes.len() - rest@.len()) =~= self.buffered().skip(k));
                        }
                        self.remaining = rest.len();
                        return Ok(Some(p));
                    }
                    Err(nom::Err::Incomplete(_)) | Err(nom::Err::Error(_)) => {}
                    Err(nom::Err::Failure(ctx)) => {
                        return Err(io_err())
                    }
                }
            }
            proof {
                if self.remaining == 0 { assert(unframe(self.buffered()).is_none()); }
            }

            // we need to read some more
            let ghost buf0 = self.buffered();
            let ghost inbox0 = self.rw.inbox();
            vec_drain_prefix(&mut self.bytes, self.start);
            self.start = 0;
            let end = self.bytes.len();
            proof { axiom_vec_len(&self.bytes); }
            self.bytes.resize(max(4096, end * 2), 0);
            let ghost b1 = self.bytes@;
            assert(b1.len() >= 4096 && b1.len() >= 2 * end && b1.take(end as int) =~= buf0);
            let read = {
                let buf = vec_tail_mut(&mut self.bytes, end);
                assert(buf@.len() == b1.len() - end);
                self.rw.read(buf)?
            };
            assert(self.bytes@.len() == b1.len());
            assert(read <= b1.len() - end);
            assert(self.bytes@.take(end as int) =~= b1.take(end as int));
            assert(self.bytes@.subrange(end as int, end + read) =~= inbox0.take(read as int));
            self.bytes.truncate(end + read);
            self.remaining = self.bytes.len();
            proof {
                assert(self.buffered() =~= buf0 + inbox0.take(read as int));
                assert(self.pending() =~= buf0 + inbox0);
            }

            if read == 0 {
                if self.bytes.is_empty() {
                    return Ok(None);
                } else {
                    return Err(io_err());
                }
            }
        }
    }
}
}
fn main() {}
