use vstd::prelude::*;
use std::collections::HashMap;
verus! {

#[verifier::external_body]
pub struct IoError { _p: () }
pub type IoResult<T> = Result<T, IoError>;

pub trait FromIo: Sized { fn from_io(e: IoError) -> Self; }

pub struct StatementData { pub long_data: HashMap<u16, Vec<u8>>, pub params: u16 }

fn nxt(i: &mut u32) -> (r: IoResult<Option<(u8, u32)>>) { Ok(None) }

fn lit(v: &mut Vec<u8>) {
    v.extend_from_slice(&b"5.1.10-alpha-msql-proxy\0"[..]);
    v.extend_from_slice(&[0x08, 0x00, 0x00, 0x00]);
}

fn run(stmts: &mut HashMap<u32, StatementData>, k: u32) -> (r: IoResult<()>)
{
    let mut c: u32 = 0;
    while let Some((seq, packet)) = nxt(&mut c)?
    {
        let state = stmts.get_mut(&k);
    }
    Ok(())
}
}
fn main() {}
