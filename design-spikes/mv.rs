use vstd::prelude::*;
verus! {
#[verifier::external_body]
#[derive(Debug)]
pub struct IoError { _p: () }
pub mod io { pub type Result<T> = core::result::Result<T, super::IoError>; }

pub struct PacketConn { pub sent_: Ghost<Seq<Seq<u8>>>, pub open_: Ghost<Seq<u8>> }
impl PacketConn {
    pub open spec fn sent(&self) -> Seq<Seq<u8>> { self.sent_@ }
    pub open spec fn open(&self) -> Seq<u8> { self.open_@ }
}
pub uninterp spec fn hdr(n: int) -> Seq<Seq<u8>>;
pub open spec fn eof(more: bool) -> Seq<u8> { seq![0xFEu8, if more { 8u8 } else { 0u8 }] }

#[verifier::external_body]
pub fn column_definitions(n: usize, w: &mut PacketConn) -> (r: io::Result<()>)
    requires old(w).open().len() == 0
    ensures r.is_ok() ==> final(w).open().len() == 0 && final(w).sent() == old(w).sent() + hdr(n as int)
{ unimplemented!() }
#[verifier::external_body]
pub fn write_eof_packet(w: &mut PacketConn, more: bool) -> (r: io::Result<()>)
    requires old(w).open().len() == 0
    ensures r.is_ok() ==> final(w).open().len() == 0 && final(w).sent() == old(w).sent().push(eof(more))
{ unimplemented!() }

pub enum Finalizer { Eof }
pub struct QueryResultWriter<'a> { pub is_bin: bool, pub writer: &'a mut PacketConn, pub last_end: Option<Finalizer> }
pub struct RowWriter<'a> { pub result: Option<QueryResultWriter<'a>>, pub ncols: usize, pub col: usize, pub finished: bool }

impl<'a> QueryResultWriter<'a> {
    fn finalize(&mut self, more_exists: bool) -> (r: io::Result<()>)
        requires old(self).last_end.is_some() ==> old(self).writer.open().len() == 0
        ensures r.is_ok() ==> final(self).last_end.is_none() && final(self).writer.open().len() == 0
            && final(self).writer.sent() == (if old(self).last_end.is_some() { old(self).writer.sent().push(eof(more_exists)) } else { old(self).writer.sent() }),
            final(self).is_bin == old(self).is_bin,
            final(self).last_end.is_none(),
            old(self).last_end.is_none() ==> r.is_ok() && final(self).writer.sent() == old(self).writer.sent() && final(self).writer.open() == old(self).writer.open(),
    {
        match self.last_end.take() {
            None => Ok(()),
            Some(Finalizer::Eof) => write_eof_packet(self.writer, more_exists),
        }
    }

    // R1: Drop body
    fn drop_body(&mut self)
        requires old(self).last_end.is_some() ==> old(self).writer.open().len() == 0
    {
        self.finalize(false).unwrap();
    }

    // R12: `mut self` -> rebinding; R13: explicit drop on the error exit before the move
    pub fn start(self, ncols: usize) -> (r: io::Result<RowWriter<'a>>)
        requires self.writer.open().len() == 0, ncols > 0
        ensures r.is_ok() ==> {
            let rw = r.unwrap();
            &&& rw.result.is_some() && rw.col == 0 && !rw.finished && rw.ncols == ncols
            &&& rw.result.unwrap().last_end.is_none()
            &&& rw.result.unwrap().writer.open().len() == 0
            &&& rw.result.unwrap().writer.sent() == (if self.last_end.is_some() { old(self.writer).sent().push(eof(true)) } else { old(self.writer).sent() }) + hdr(ncols as int)
        }
    {
        let mut self_ = self;
        match self_.finalize(true) { Ok(v) => v, Err(e) => { self_.drop_body(); return Err(e); } };
        RowWriter::new(self_, ncols)
    }

    pub fn no_more_results(self) -> (r: io::Result<()>)
        requires self.writer.open().len() == 0
    {
        let mut self_ = self;
        let r = self_.finalize(false);
        self_.drop_body();
        r
    }
}

impl<'a> RowWriter<'a> {
    fn new(result: QueryResultWriter<'a>, ncols: usize) -> (r: io::Result<RowWriter<'a>>)
        requires result.writer.open().len() == 0, result.last_end.is_none(), ncols > 0
        ensures r.is_ok() ==> {
            let rw = r.unwrap();
            &&& rw.result.is_some() && rw.col == 0 && !rw.finished && rw.ncols == ncols
            &&& rw.result.unwrap().last_end.is_none()
            &&& rw.result.unwrap().writer.open().len() == 0
            &&& rw.result.unwrap().writer.sent() == old(result.writer).sent() + hdr(ncols as int)
        }
    {
        let mut rw = RowWriter {
            result: Some(result),
            ncols,
            col: 0,
            finished: false,
        };
        rw.start()?;
        Ok(rw)
    }

    fn start(&mut self) -> (r: io::Result<()>)
        requires old(self).result.is_some(), old(self).result.unwrap().writer.open().len() == 0, old(self).ncols > 0
        ensures r.is_ok() ==> final(self).result.is_some()
            && final(self).result.unwrap().writer.open().len() == 0
            && final(self).result.unwrap().writer.sent() == old(self).result.unwrap().writer.sent() + hdr(old(self).ncols as int)
            && final(self).result.unwrap().last_end == old(self).result.unwrap().last_end,
            final(self).ncols == old(self).ncols, final(self).col == old(self).col, final(self).finished == old(self).finished,
    {
        if self.ncols != 0 {
            column_definitions(self.ncols, self.result.as_mut().unwrap().writer)?;
        }
        Ok(())
    }

    pub fn finish_one(self) -> (r: io::Result<QueryResultWriter<'a>>)
        requires self.result.is_some(), self.result.unwrap().writer.open().len() == 0, self.col == 0, !self.finished, self.ncols > 0
        ensures r.is_ok() ==> r.unwrap().last_end.is_some() && r.unwrap().writer.sent() == old(self.result.unwrap().writer).sent()
    {
        let mut self_ = self;
        self_.finished = true;
        self_.result.as_mut().unwrap().last_end = Some(Finalizer::Eof);
        Ok(self_.result.take().unwrap())
    }
}
}
fn main() {}
