use vstd::prelude::*;
use std::collections::HashMap;
verus! {

pub struct StatementData { pub long_data: HashMap<u16, Vec<u8>>, pub params: u16, pub bound: Vec<u8> }

pub assume_specification<'a> [ HashMap::<u32, StatementData>::get_mut::<u32> ] (m: &'a mut HashMap<u32, StatementData>, k: &u32) -> (r: Option<&'a mut StatementData>)
    ensures
        r.is_some() == old(m)@.contains_key(*k),
;

fn run(stmts: &mut HashMap<u32, StatementData>, k: u32)
{
    let state = stmts.get_mut(&k);
    match state {
        Some(s) => { s.bound.clear(); s.params = 3; }
        None => {}
    }
}

fn ins(stmts: &mut HashMap<u32, StatementData>, k: u32, d: StatementData)
    ensures final(stmts)@ == old(stmts)@.insert(k, d)
{
    stmts.insert(k, d);
}
fn rem(stmts: &mut HashMap<u32, StatementData>, k: u32)
    ensures final(stmts)@ == old(stmts)@.remove(k)
{
    stmts.remove(&k);
}
}
fn main() {}
