use vstd::prelude::*;
verus! {
global size_of usize == 8;
#[verifier::external_body]
#[derive(Debug)]
pub struct IoError { _p: () }
pub mod io { pub type Result<T> = core::result::Result<T, super::IoError>; }

pub struct LittleEndian;
pub struct StatusFlags { pub b: u16 }
impl StatusFlags { pub fn bits(&self) -> (r: u16) ensures r == self.b { self.b } pub fn empty() -> (r: StatusFlags) ensures r.b == 0 { StatusFlags { b: 0 } } }
pub struct ColumnFlags { pub b: u16 }
impl ColumnFlags { pub fn bits(&self) -> (r: u16) ensures r == self.b { self.b } }
#[derive(Clone, Copy)]
pub struct ColumnType(pub u8);
pub struct Column { pub table: String, pub column: String, pub coltype: ColumnType, pub colflags: ColumnFlags }
pub const UTF8_GENERAL_CI: u16 = 33;

pub open spec fn le16(x: u16) -> Seq<u8> { seq![(x & 0xff) as u8, (x >> 8) as u8] }
pub open spec fn le32(x: u32) -> Seq<u8> { seq![(x & 0xff) as u8, ((x >> 8) & 0xff) as u8, ((x >> 16) & 0xff) as u8, (x >> 24) as u8] }
pub uninterp spec fn lenenc_int(x: u64) -> Seq<u8>;
pub open spec fn lenenc_str(b: Seq<u8>) -> Seq<u8> { lenenc_int(b.len() as u64) + b }
pub uninterp spec fn str_bytes(s: &String) -> Seq<u8>;
pub assume_specification [ String::as_bytes ] (s: &String) -> (r: &[u8]) ensures r@ == str_bytes(s);

pub struct PacketConn { pub sent_: Ghost<Seq<Seq<u8>>>, pub open_: Ghost<Seq<u8>> }
impl PacketConn {
    pub open spec fn sent(&self) -> Seq<Seq<u8>> { self.sent_@ }
    pub open spec fn open(&self) -> Seq<u8> { self.open_@ }
    pub open spec fn app(&self, old: &Self, b: Seq<u8>) -> bool { self.open() == old.open() + b && self.sent() == old.sent() }
    #[verifier::external_body] pub fn write_all(&mut self, b: &[u8]) -> (r: io::Result<()>) ensures r.is_ok() ==> final(self).app(old(self), b@) { unimplemented!() }
    #[verifier::external_body] pub fn write_u8(&mut self, b: u8) -> (r: io::Result<()>) ensures r.is_ok() ==> final(self).app(old(self), seq![b]) { unimplemented!() }
    #[verifier::external_body] pub fn write_u16<E>(&mut self, v: u16) -> (r: io::Result<()>) ensures r.is_ok() ==> final(self).app(old(self), le16(v)) { unimplemented!() }
    #[verifier::external_body] pub fn write_u32<E>(&mut self, v: u32) -> (r: io::Result<()>) ensures r.is_ok() ==> final(self).app(old(self), le32(v)) { unimplemented!() }
    #[verifier::external_body] pub fn write_lenenc_int(&mut self, v: u64) -> (r: io::Result<u64>) ensures r.is_ok() ==> final(self).app(old(self), lenenc_int(v)) { unimplemented!() }
    #[verifier::external_body] pub fn write_lenenc_str(&mut self, b: &[u8]) -> (r: io::Result<u64>) ensures r.is_ok() ==> final(self).app(old(self), lenenc_str(b@)) { unimplemented!() }
    #[verifier::external_body] pub fn end_packet(&mut self) -> (r: io::Result<()>)
        ensures r.is_ok() ==> final(self).open().len() == 0 && final(self).sent() == (if old(self).open().len() > 0 { old(self).sent().push(old(self).open()) } else { old(self).sent() })
    { unimplemented!() }
}

pub open spec fn eof_payload(s: u16) -> Seq<u8> { seq![0xFEu8, 0u8, 0u8] + le16(s) }
pub open spec fn err_payload(code: u16, state: Seq<u8>, msg: Seq<u8>) -> Seq<u8> { seq![0xFFu8] + le16(code) + seq![35u8] + state + msg }
pub open spec fn coldef41(c: Column, fl: bool) -> Seq<u8> {
    lenenc_str(seq![100u8, 101u8, 102u8]) + lenenc_str(Seq::empty()) + lenenc_str(str_bytes(&c.table)) + lenenc_str(Seq::empty())
    + lenenc_str(str_bytes(&c.column)) + lenenc_str(Seq::empty()) + lenenc_int(0xC) + le16(33) + le32(1024)
    + seq![c.coltype.0] + le16(c.colflags.b) + seq![0u8] + seq![0u8, 0u8] + (if fl { seq![0xfbu8] } else { Seq::empty() })
}
pub open spec fn coldefs(cols: Seq<Column>, fl: bool) -> Seq<Seq<u8>> { Seq::new(cols.len(), |i: int| coldef41(cols[i], fl)) }

pub(crate) fn write_eof_packet(w: &mut PacketConn, s: StatusFlags) -> (r: io::Result<()>)
    requires old(w).open().len() == 0
    ensures r.is_ok() ==> final(w).open().len() == 0 && final(w).sent() == old(w).sent().push(eof_payload(s.b))
{
    w.write_all(&[0xFE, 0x00, 0x00])?;
    w.write_u16::<LittleEndian>(s.bits())?;
    w.end_packet()
}

pub(crate) fn write_column_definitions<'a>(
    i: &'a [Column],
    w: &mut PacketConn,
    is_comm_field_list_response: bool,
    only_eof_on_nonempty: bool,
) -> (r: io::Result<()>)
    requires old(w).open().len() == 0
    ensures r.is_ok() ==> final(w).open().len() == 0
        && final(w).sent() == old(w).sent() + coldefs(i@, is_comm_field_list_response)
              + (if i@.len() == 0 && only_eof_on_nonempty { Seq::<Seq<u8>>::empty() } else { seq![eof_payload(0)] })
{
    let mut empty = true;
    for c in it: i.iter()
        invariant
            w.open().len() == 0,
            empty == (it.index@ == 0),
            w.sent() == old(w).sent() + coldefs(i@.take(it.index@ as int), is_comm_field_list_response),
    {
        w.write_lenenc_str(&[100u8, 101u8, 102u8])?;
        w.write_lenenc_str(&[])?;
        w.write_lenenc_str(c.table.as_bytes())?;
        w.write_lenenc_str(&[])?;
        w.write_lenenc_str(c.column.as_bytes())?;
        w.write_lenenc_str(&[])?;
        w.write_lenenc_int(0xC)?;
        w.write_u16::<LittleEndian>(UTF8_GENERAL_CI)?;
        w.write_u32::<LittleEndian>(1024)?;
        w.write_u8(c.coltype.0 as u8)?;
        w.write_u16::<LittleEndian>(c.colflags.bits())?;
        w.write_all(&[0x00])?; // decimals
        w.write_all(&[0x00, 0x00])?; // unused

        if is_comm_field_list_response {
            w.write_u8(0xfb)?;
        }

        let ghost o = w.open();
        let ghost s0 = w.sent();
        let ghost k = it.index@ as int;
        proof {
            assert(c == i@[k]);
            assert(o =~= coldef41(*c, is_comm_field_list_response));
            assert(o.len() > 0);
        }
        w.end_packet()?;
        empty = false;
        proof {
            let fl = is_comm_field_list_response;
            assert(i@.take(k + 1) =~= i@.take(k).push(i@[k]));
            assert(coldefs(i@.take(k + 1), fl) =~= coldefs(i@.take(k), fl).push(coldef41(i@[k], fl)));
            assert(w.sent() =~= old(w).sent() + coldefs(i@.take(k + 1), fl));
        }
    }
    proof { assert(i@.take(i@.len() as int) =~= i@); }

    if empty && only_eof_on_nonempty {
        Ok(())
    } else {
        write_eof_packet(w, StatusFlags::empty())
    }
}
}
fn main() {}
