use crate::{Column, ColumnFlags, ColumnType, ErrorKind};
use crate::value::ToMysqlValue;
use std::io::{self, Read, Write};

pub struct Buf<const N: usize> { pub b: [u8; N], pub n: usize }
impl<const N: usize> Write for Buf<N> {
    fn write(&mut self, buf: &[u8]) -> io::Result<usize> {
        let k = buf.len();
        if self.n + k > N { return Err(io::Error::from(io::ErrorKind::WriteZero)); }
        self.b[self.n..self.n + k].copy_from_slice(buf);
        self.n += k;
        Ok(k)
    }
    fn flush(&mut self) -> io::Result<()> { Ok(()) }
}
impl<const N: usize> Read for Buf<N> {
    fn read(&mut self, _buf: &mut [u8]) -> io::Result<usize> { Ok(0) }
}

// S3: error code tables
#[kani::proof]
fn s3_errorkind_roundtrip() {
    let x: u16 = kani::any();
    // domain of From<u16>: codes for which it does not panic; characterise by a second call guarded by catch? no: restrict with assume on defined range via as-cast roundtrip
    kani::assume(x >= 1000 && x <= 1075);
    let k = ErrorKind::from(x);
    assert!(k as u16 == x);
    let s = k.sqlstate();
    assert!(s.len() == 5);
}

// S4: commands::parse, unbounded-length payload via raw Vec
#[kani::proof]
#[kani::unwind(5)]
fn s4_parse_unbounded() {
    let n: usize = kani::any();
    kani::assume(n >= 1 && n <= (1usize << 40));
    let mut v: Vec<u8> = Vec::with_capacity(n);
    unsafe { v.set_len(n); }
    let p = &v[..];
    if p[0] == 0x03 {
        let r = crate::commands::parse(p);
        match r {
            Ok((rest, crate::commands::Command::Query(q))) => {
                assert!(rest.is_empty());
                assert!(q.len() == n - 1);
                assert!(q.as_ptr() == unsafe { p.as_ptr().add(1) });
            }
            _ => assert!(false),
        }
    }
}

#[kani::proof]
#[kani::unwind(5)]
fn s4_parse_bounded() {
    let b: [u8; 12] = kani::any();
    let n: usize = kani::any();
    kani::assume(n <= 12);
    let p = &b[..n];
    let r = crate::commands::parse(p);
    if n >= 1 && p[0] == 0x17 {
        match r {
            Ok((_, crate::commands::Command::Execute { stmt, params })) => {
                assert!(n >= 10);
                assert!(stmt == u32::from_le_bytes([p[1], p[2], p[3], p[4]]));
                assert!(params.len() == n - 10);
            }
            Ok(_) => assert!(false),
            Err(_) => assert!(n < 10),
        }
    }
}

// S6: text encoders
#[kani::proof]
#[kani::unwind(6)]
fn s6_u8_text() {
    let v: u8 = kani::any();
    let mut b = Buf::<8> { b: [0; 8], n: 0 };
    v.to_mysql_text(&mut b).unwrap();
    let len = b.b[0] as usize;
    assert!(b.n == len + 1 && len >= 1 && len <= 3);
    let mut acc: u32 = 0;
    let mut i = 0;
    while i < len { let d = b.b[1 + i]; assert!(d >= b'0' && d <= b'9'); acc = acc * 10 + (d - b'0') as u32; i += 1; }
    assert!(acc == v as u32);
}

// S7: write_ok_packet through the real PacketConn
#[kani::proof]
#[kani::unwind(4)]
fn s7_ok_packet() {
    let rows: u64 = kani::any();
    let id: u64 = kani::any();
    kani::assume(rows < 251 && id >= 65536 && id < (1 << 24));
    let t = Buf::<64> { b: [0; 64], n: 0 };
    let mut pc = crate::packet::PacketConn::new(t);
    pc.set_seq(7);
    crate::writers::write_ok_packet(&mut pc, rows, id, crate::StatusFlags::empty()).unwrap();
    pc.flush().unwrap();
}

const U24_MAX: usize = 16_777_215;
// S5a: fullpacket / onepacket contracts with the real constant
#[kani::proof]
#[kani::unwind(5)]
fn s5_fullpacket() {
    let n: usize = kani::any();
    kani::assume(n <= (1usize << 40));
    let mut b: Vec<u8> = Vec::with_capacity(n);
    unsafe { b.set_len(n); }
    let i = &b[..n];
    match crate::packet::fullpacket(i) {
        Ok((rest, (seq, bytes))) => {
            assert!(n >= U24_MAX + 4);
            assert!(i[0] == 0xff && i[1] == 0xff && i[2] == 0xff);
            assert!(seq == i[3]);
            assert!(bytes.len() == U24_MAX);
            assert!(bytes.as_ptr() == unsafe { i.as_ptr().add(4) });
            assert!(rest.len() == n - 4 - U24_MAX);
        }
        Err(_) => {
            assert!(n < U24_MAX + 4 || !(i[0] == 0xff && i[1] == 0xff && i[2] == 0xff));
        }
    }
}

// S5b: packet() two-fragment reassembly with the real constant
#[kani::proof]
#[kani::unwind(5)]
fn s5_packet_two_fragments() {
    const N: usize = U24_MAX + 4 + 4 + 6;
    let n: usize = kani::any();
    kani::assume(n <= N);
    let mut b: Vec<u8> = Vec::with_capacity(n);
    unsafe { b.set_len(n); }
    let i = &b[..n];
    kani::assume(n >= 4 && i[0] == 0xff && i[1] == 0xff && i[2] == 0xff);
    kani::assume(i[3] != 255);
    if n >= U24_MAX + 8 { kani::assume(i[U24_MAX + 7] == i[3] + 1); }
    match crate::packet::packet(i) {
        Ok((rest, (seq, p))) => {
            assert!(n >= U24_MAX + 8);
            let l2 = i[U24_MAX + 4] as usize + 256 * (i[U24_MAX + 5] as usize) + 65536 * (i[U24_MAX + 6] as usize);
            assert!(l2 <= 6);
            assert!(seq == i[U24_MAX + 7]);
            assert!(p.len() == U24_MAX + l2);
            assert!(rest.len() == n - U24_MAX - 8 - l2);
            let k: usize = kani::any();
            kani::assume(k < p.len());
            if k < U24_MAX { assert!(p[k] == i[4 + k]); } else { assert!(p[k] == i[8 + k]); }
        }
        Err(_) => {}
    }
}
