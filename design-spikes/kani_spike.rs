use crate::{Column, ColumnFlags, ColumnType, ErrorKind};
use crate::value::ToMysqlValue;
use std::io::{self, Read, Write};

pub struct Buf<const N: usize> { pub b: [u8; N], pub n: usize }
impl<const N: usize> Write for Buf<N> {
    fn write(&mut self, buf: &[u8]) -> io::Result<usize> {
        let k = buf.len();
        if self.n + k > N { return Err(io::Error::from(io::ErrorKind::WriteZero)); }
        self.b[self.n..self.n + k].copy_from_slice(buf);
        self.n += k;
        Ok(k)
    }
    fn flush(&mut self) -> io::Result<()> { Ok(()) }
}
impl<const N: usize> Read for Buf<N> {
    fn read(&mut self, _buf: &mut [u8]) -> io::Result<usize> { Ok(0) }
}

// S3: error code tables
#[kani::proof]
fn s3_errorkind_roundtrip() {
    let x: u16 = kani::any();
    // domain of From<u16>: codes for which it does not panic; characterise by a second call guarded by catch? no: restrict with assume on defined range via as-cast roundtrip
    kani::assume(x >= 1000 && x <= 1075);
    let k = ErrorKind::from(x);
    assert!(k as u16 == x);
    let s = k.sqlstate();
    assert!(s.len() == 5);
}

// S4: commands::parse, unbounded-length payload via raw Vec
#[kani::proof]
#[kani::unwind(5)]
fn s4_parse_unbounded() {
    let n: usize = kani::any();
    kani::assume(n >= 1 && n <= (1usize << 40));
    let mut v: Vec<u8> = Vec::with_capacity(n);
    unsafe { v.set_len(n); }
    let p = &v[..];
    if p[0] == 0x03 {
        let r = crate::commands::parse(p);
        match r {
            Ok((rest, crate::commands::Command::Query(q))) => {
                assert!(rest.is_empty());
                assert!(q.len() == n - 1);
                assert!(q.as_ptr() == unsafe { p.as_ptr().add(1) });
            }
            _ => assert!(false),
        }
    }
}

#[kani::proof]
#[kani::unwind(5)]
fn s4_parse_bounded() {
    let b: [u8; 12] = kani::any();
    let n: usize = kani::any();
    kani::assume(n <= 12);
    let p = &b[..n];
    let r = crate::commands::parse(p);
    if n >= 1 && p[0] == 0x17 {
        match r {
            Ok((_, crate::commands::Command::Execute { stmt, params })) => {
                assert!(n >= 10);
                assert!(stmt == u32::from_le_bytes([p[1], p[2], p[3], p[4]]));
                assert!(params.len() == n - 10);
            }
            Ok(_) => assert!(false),
            Err(_) => assert!(n < 10),
        }
    }
}

// S6: text encoders
#[kani::proof]
#[kani::unwind(6)]
fn s6_u8_text() {
    let v: u8 = kani::any();
    let mut b = Buf::<8> { b: [0; 8], n: 0 };
    v.to_mysql_text(&mut b).unwrap();
    let len = b.b[0] as usize;
    assert!(b.n == len + 1 && len >= 1 && len <= 3);
    let mut acc: u32 = 0;
    let mut i = 0;
    while i < len { let d = b.b[1 + i]; assert!(d >= b'0' && d <= b'9'); acc = acc * 10 + (d - b'0') as u32; i += 1; }
    assert!(acc == v as u32);
}

// S7: write_ok_packet through the real PacketConn
#[kani::proof]
#[kani::unwind(4)]
fn s7_ok_packet() {
    let rows: u64 = kani::any();
    let id: u64 = kani::any();
    kani::assume(rows < 251 && id >= 65536 && id < (1 << 24));
    let t = Buf::<64> { b: [0; 64], n: 0 };
    let mut pc = crate::packet::PacketConn::new(t);
    pc.set_seq(7);
    crate::writers::write_ok_packet(&mut pc, rows, id, crate::StatusFlags::empty()).unwrap();
    pc.flush().unwrap();
}

const U24_MAX: usize = 16_777_215;
// S5a: fullpacket / onepacket contracts with the real constant
#[kani::proof]
#[kani::unwind(5)]
fn s5_fullpacket() {
    let n: usize = kani::any();
    kani::assume(n <= (1usize << 40));
    let mut b: Vec<u8> = Vec::with_capacity(n);
    unsafe { b.set_len(n); }
    let i = &b[..n];
    match crate::packet::fullpacket(i) {
        Ok((rest, (seq, bytes))) => {
            assert!(n >= U24_MAX + 4);
            assert!(i[0] == 0xff && i[1] == 0xff && i[2] == 0xff);
            assert!(seq == i[3]);
            assert!(bytes.len() == U24_MAX);
            assert!(bytes.as_ptr() == unsafe { i.as_ptr().add(4) });
            assert!(rest.len() == n - 4 - U24_MAX);
        }
        Err(_) => {
            assert!(n < U24_MAX + 4 || !(i[0] == 0xff && i[1] == 0xff && i[2] == 0xff));
        }
    }
}

// S5b: packet() two-fragment reassembly with the real constant
#[kani::proof]
#[kani::unwind(5)]
fn s5_packet_two_fragments() {
    const N: usize = U24_MAX + 4 + 4 + 6;
    let n: usize = kani::any();
    kani::assume(n <= N);
    let mut b: Vec<u8> = Vec::with_capacity(n);
    unsafe { b.set_len(n); }
    let i = &b[..n];
    kani::assume(n >= 4 && i[0] == 0xff && i[1] == 0xff && i[2] == 0xff);
    kani::assume(i[3] != 255);
    if n >= U24_MAX + 8 { kani::assume(i[U24_MAX + 7] == i[3] + 1); }
    match crate::packet::packet(i) {
        Ok((rest, (seq, p))) => {
            assert!(n >= U24_MAX + 8);
            let l2 = i[U24_MAX + 4] as usize + 256 * (i[U24_MAX + 5] as usize) + 65536 * (i[U24_MAX + 6] as usize);
            assert!(l2 <= 6);
            assert!(seq == i[U24_MAX + 7]);
            assert!(p.len() == U24_MAX + l2);
            assert!(rest.len() == n - U24_MAX - 8 - l2);
            let k: usize = kani::any();
            kani::assume(k < p.len());
            if k < U24_MAX { assert!(p[k] == i[4 + k]); } else { assert!(p[k] == i[8 + k]); }
        }
        Err(_) => {}
    }
}

// S8: chrono-based conversions and encoders
#[kani::proof]
#[kani::unwind(4)]
fn s8_datetime_from_value_11() {
    let raw: [u8; 12] = kani::any();
    kani::assume(raw[0] == 11);
    let y = u16::from_le_bytes([raw[1], raw[2]]);
    kani::assume(y >= 1 && y <= 9999 && raw[3] >= 1 && raw[3] <= 12 && raw[4] >= 1 && raw[4] <= 28);
    kani::assume(raw[5] < 24 && raw[6] < 60 && raw[7] < 60);
    let us = u32::from_le_bytes([raw[8], raw[9], raw[10], raw[11]]);
    kani::assume(us < 1_000_000);
    let mut inp = &raw[..];
    let v = crate::Value::parse_from(&mut inp, ColumnType::MYSQL_TYPE_DATETIME, false).unwrap();
    let d: chrono::NaiveDateTime = v.into();
    use chrono::{Datelike, Timelike};
    assert!(d.year() == y as i32 && d.month() == raw[3] as u32 && d.day() == raw[4] as u32);
    assert!(d.hour() == raw[5] as u32 && d.minute() == raw[6] as u32 && d.second() == raw[7] as u32);
    assert!(d.nanosecond() == us * 1000);
}

#[kani::proof]
#[kani::unwind(4)]
fn s8_date_bin() {
    let y: i32 = kani::any(); let m: u32 = kani::any(); let dd: u32 = kani::any();
    kani::assume(y >= 0 && y <= 9999 && m >= 1 && m <= 12 && dd >= 1 && dd <= 31);
    if let Some(d) = chrono::NaiveDate::from_ymd_opt(y, m, dd) {
        let c = Column { table: String::new(), column: String::new(), coltype: ColumnType::MYSQL_TYPE_DATE, colflags: ColumnFlags::empty() };
        let mut b = Buf::<16> { b: [0; 16], n: 0 };
        d.to_mysql_bin(&mut b, &c).unwrap();
        assert!(b.n == 5 && b.b[0] == 4);
        assert!(u16::from_le_bytes([b.b[1], b.b[2]]) as i32 == y && b.b[3] as u32 == m && b.b[4] as u32 == dd);
    }
}

// S9: mysql_common lenenc
#[kani::proof]
#[kani::unwind(10)]
fn s9_lenenc_int() {
    use crate::myc::io::WriteMysqlExt;
    let x: u64 = kani::any();
    let mut b = Buf::<16> { b: [0; 16], n: 0 };
    let n = b.write_lenenc_int(x).unwrap();
    assert!(n as usize == b.n);
    if x < 251 { assert!(b.n == 1 && b.b[0] as u64 == x); }
    else if x < 65536 { assert!(b.n == 3 && b.b[0] == 0xFC && u16::from_le_bytes([b.b[1], b.b[2]]) as u64 == x); }
    else if x < 16777216 { assert!(b.n == 4 && b.b[0] == 0xFD && (b.b[1] as u64 | (b.b[2] as u64) << 8 | (b.b[3] as u64) << 16) == x); }
    else { assert!(b.n == 9 && b.b[0] == 0xFE && u64::from_le_bytes([b.b[1],b.b[2],b.b[3],b.b[4],b.b[5],b.b[6],b.b[7],b.b[8]]) == x); }
}

// S10: client_handshake, 4.1 layout, user name <= 8 bytes
fn memchr_spec(needle: u8, hay: &[u8]) -> Option<usize> {
    let mut i = 0;
    while i < hay.len() { if hay[i] == needle { return Some(i); } i += 1; }
    None
}

#[kani::proof]
#[kani::stub(memchr::memchr::memchr, memchr_spec)]
#[kani::unwind(13)]
fn s10_handshake41() {
    const N: usize = 32 + 8 + 3;
    let b: [u8; N] = kani::any();
    let n: usize = kani::any();
    kani::assume(n <= N);
    let p = &b[..n];
    kani::assume(n >= 2 && (p[1] & 0x02) != 0); // CLIENT_PROTOCOL_41 = 0x0200
    kani::assume(n < 4 || (p[1] & 0x08) == 0);  // no SSL
    match crate::commands::client_handshake(p, false) {
        Ok((_rest, h)) => {
            assert!(n >= 33);
            let u = h.username.unwrap();
            assert!(u.as_ptr() == unsafe { p.as_ptr().add(32) });
            assert!(u.len() < n - 32 && p[32 + u.len()] == 0);
            let k: usize = kani::any();
            kani::assume(k < u.len());
            assert!(u[k] != 0);
        }
        Err(_) => {
            // either too short or no NUL terminator after offset 32
            if n >= 33 { let k: usize = kani::any(); kani::assume(k >= 32 && k < n); assert!(p[k] != 0); }
        }
    }
}

// S11: parse_from over every column type code, 12-byte input
fn fmt_stub(_a: std::fmt::Arguments<'_>) -> String { String::new() }

#[kani::proof]
#[kani::stub(std::fmt::format, fmt_stub)]
#[kani::unwind(12)]
fn s11_parse_from_all() {
    let b: [u8; 12] = kani::any();
    let n: usize = kani::any();
    kani::assume(n <= 12);
    let code: u8 = kani::any();
    let unsigned: bool = kani::any();
    if let Ok(ct) = ColumnType::try_from(code) {
        let mut inp = &b[..n];
        let r = crate::Value::parse_from(&mut inp, ct, unsigned);
        if ct == ColumnType::MYSQL_TYPE_LONG && !unsigned {
            match r {
                Ok(v) => { assert!(n >= 4 && inp.len() == n - 4); assert!(i64::from(v) == i32::from_le_bytes([b[0], b[1], b[2], b[3]]) as i64); }
                Err(_) => assert!(n < 4),
            }
        }
    }
}

#[kani::proof]
#[kani::stub(memchr::memchr::memchr, memchr_spec)]
#[kani::unwind(10)]
fn s12_memchr_direct() {
    let b: [u8; 6] = kani::any();
    let r = memchr::memchr(0, &b[..]);
    if let Some(i) = r { assert!(b[i] == 0); }
}

unsafe fn memchr_raw_spec(n1: u8, start: *const u8, end: *const u8) -> Option<*const u8> {
    let mut p = start;
    while p < end { if *p == n1 { return Some(p); } p = p.add(1); }
    None
}
#[kani::proof]
#[kani::stub(memchr::arch::x86_64::memchr::memchr_raw, memchr_raw_spec)]
#[kani::unwind(10)]
fn s13_memchr_raw() {
    let b: [u8; 6] = kani::any();
    let r = memchr::memchr(0, &b[..]);
    if let Some(i) = r { assert!(b[i] == 0); let k: usize = kani::any(); kani::assume(k < i); assert!(b[k] != 0); }
    else { let k: usize = kani::any(); kani::assume(k < 6); assert!(b[k] != 0); }
}

// S14: C15 family — symbolic value, symbolic column type and flags
fn range_of(ct: ColumnType, unsigned: bool) -> Option<(i128, i128, usize)> {
    let w = match ct {
        ColumnType::MYSQL_TYPE_TINY => 1,
        ColumnType::MYSQL_TYPE_SHORT | ColumnType::MYSQL_TYPE_YEAR => 2,
        ColumnType::MYSQL_TYPE_LONG | ColumnType::MYSQL_TYPE_INT24 => 4,
        ColumnType::MYSQL_TYPE_LONGLONG => 8,
        _ => return None,
    };
    let bits = 8 * w as u32;
    Some(if unsigned { (0, (1i128 << bits) - 1, w) } else { (-(1i128 << (bits - 1)), (1i128 << (bits - 1)) - 1, w) })
}
fn decode(b: &[u8; 16], w: usize, unsigned: bool) -> i128 {
    let mut raw = [0u8; 8];
    let mut i = 0;
    while i < w { raw[i] = b[i]; i += 1; }
    let u = u64::from_le_bytes(raw);
    if unsigned { u as i128 } else {
        match w { 1 => (u as u8 as i8) as i128, 2 => (u as u16 as i16) as i128, 4 => (u as u32 as i32) as i128, _ => (u as i64) as i128 }
    }
}
macro_rules! c15 {
    ($name:ident, $t:ty, $ptr:expr) => {
        #[kani::proof]
        #[kani::stub(std::fmt::format, fmt_stub)]
        #[kani::unwind(10)]
        fn $name() {
            let v: $t = kani::any();
            let code: u8 = kani::any();
            let unsigned: bool = kani::any();
            let ct = match ColumnType::try_from(code) { Ok(c) => c, Err(_) => return };
            let c = col(ct, unsigned);
            let mut b = Buf::<16> { b: [0; 16], n: 0 };
            let r = v.to_mysql_bin(&mut b, &c);
            if let Some((lo, hi, w)) = range_of(ct, unsigned) {
                if r.is_ok() {
                    assert!(b.n == w);
                    assert!(decode(&b.b, w, unsigned) == v as i128);      // C15.exact
                }
                if $ptr {
                    if (v as i128) >= lo && (v as i128) <= hi { assert!(r.is_ok()); }   // C15.accept.ptr
                } else if lo <= (<$t>::MIN as i128) && (<$t>::MAX as i128) <= hi {
                    assert!(r.is_ok());                                  // C15.accept.fixed
                }
            } else {
                assert!(r.is_err());
            }
        }
    };
}
fn col(ct: ColumnType, unsigned: bool) -> Column {
    Column { table: String::new(), column: String::new(), coltype: ct,
        colflags: if unsigned { ColumnFlags::UNSIGNED_FLAG } else { ColumnFlags::empty() } }
}
c15!(s14_u8, u8, false);
c15!(s14_i8, i8, false);
c15!(s14_i32, i32, false);
c15!(s14_u64, u64, false);
c15!(s14_usize, usize, true);
c15!(s14_isize, isize, true);
