use vstd::prelude::*;
use std::collections::HashMap;
verus! {

#[verifier::external_body]
#[derive(Debug)]
pub struct IoError { _p: () }
pub mod io { pub type Result<T> = core::result::Result<T, super::IoError>; }

#[derive(Clone, Copy, PartialEq, Eq)]
pub struct ColumnType(pub u8);
impl ColumnType {
    #[verifier::external_body]
    pub fn try_from(b: u8) -> (r: Result<ColumnType, ()>)
        ensures r.is_ok() <==> valid_type_code(b), r.is_ok() ==> r.unwrap().0 == b
    { unimplemented!() }
}
pub uninterp spec fn valid_type_code(b: u8) -> bool;

pub enum ValueInner<'a> { NULL, Bytes(&'a [u8]), Other(Seq<u8>) }
pub struct Value<'a>(pub ValueInner<'a>);

// spec of one value's wire form: Some((value-bytes-consumed)) — seam to Kani K3
pub uninterp spec fn value_len(input: Seq<u8>, ct: u8, unsigned: bool) -> Option<int>;

impl<'a> Value<'a> {
    pub fn null() -> (r: Self) ensures r.0 is NULL { Value(ValueInner::NULL) }
    pub fn bytes(input: &'a [u8]) -> (r: Value<'a>) ensures r.0 == ValueInner::Bytes(input) { Value(ValueInner::Bytes(input)) }
    #[verifier::external_body]
    pub fn parse_from(input: &mut &'a [u8], ct: ColumnType, unsigned: bool) -> (r: io::Result<Self>)
        ensures
            r.is_ok() <==> value_len(old(input)@, ct.0, unsigned).is_some(),
            r.is_ok() ==> {
                let k = value_len(old(input)@, ct.0, unsigned).unwrap();
                0 <= k <= old(input)@.len() && final(input)@ == old(input)@.skip(k)
                && r.unwrap().0 == ValueInner::Other(old(input)@.take(k))
            },
    { unimplemented!() }
}

pub struct ParamValue<'a> { pub value: Value<'a>, pub coltype: ColumnType }

pub struct Params<'a> {
    pub params: u16,
    pub input: &'a [u8],
    pub nullmap: Option<&'a [u8]>,
    pub col: u16,
    pub long_data: &'a HashMap<u16, Vec<u8>>,
    pub bound_types: &'a mut Vec<(ColumnType, bool)>,
}

#[verifier::external_body]
fn vpanic() requires false { unimplemented!() }

impl<'a> Params<'a> {
    fn next(&mut self) -> (r: Option<ParamValue<'a>>)
    {
        if self.nullmap.is_none() {
            let nullmap_len = (self.params as usize + 7) / 8;
            let (nullmap, rest) = self.input.split_at(nullmap_len);
            self.nullmap = Some(nullmap);
            self.input = rest;

            if !rest.is_empty() && rest[0] != 0x00 {
                let (typmap, rest) = rest[1..].split_at(2 * self.params as usize);
                self.bound_types.clear();
                for i in 0..self.params as usize {
                    self.bound_types.push((
                        ColumnType::try_from(typmap[2 * i]).unwrap(),
                        (typmap[2 * i + 1] & 128) != 0,
                    ));
                }
                self.input = rest;
            }
        }

        if self.col >= self.params {
            return None;
        }
        let pt = &self.bound_types[self.col as usize];

        if let Some(nullmap) = self.nullmap {
            let byte = self.col as usize / 8;
            if byte >= nullmap.len() {
                return None;
            }
            if (nullmap[byte] & 1u8 << (self.col % 8)) != 0 {
                self.col += 1;
                return Some(ParamValue {
                    value: Value::null(),
                    coltype: pt.0,
                });
            }
        } else {
            vpanic();
        }

        let v = if let Some(data) = self.long_data.get(&self.col) {
            Value::bytes(&data[..])
        } else {
            Value::parse_from(&mut self.input, pt.0, pt.1).unwrap()
        };
        self.col += 1;
        Some(ParamValue {
            value: v,
            coltype: pt.0,
        })
    }
}
}
fn main() {}
